//! Kani (CBMC) kernels: container-free functions of acts decided bit-precisely on the compiled code.
//! They complement the MIR engine (which interprets the same functions on mathematical integers with explicit wrap-around casts).
#![allow(dead_code)]

#[cfg(kani)]
mod proofs {
    use acts::data::MessageStatus;
    use acts::verif::TaskState;
    use acts::{TimeoutLimit, TimeoutUnit};

    fn any_state() -> TaskState {
        let k: u8 = kani::any();
        kani::assume(k < 13);
        match k {
            0 => TaskState::None,
            1 => TaskState::Ready,
            2 => TaskState::Pending,
            3 => TaskState::Running,
            4 => TaskState::Interrupt,
            5 => TaskState::Completed,
            6 => TaskState::Submitted,
            7 => TaskState::Backed,
            8 => TaskState::Cancelled,
            9 => TaskState::Error,
            10 => TaskState::Skipped,
            11 => TaskState::Aborted,
            _ => TaskState::Removed,
        }
    }

    /// C02 / C05: the "task is finished" predicate every guard relies on is exactly the set of eight terminal states,
    /// and the other predicates partition the remaining ones.
    #[kani::proof]
    fn state_predicates_partition() {
        let s = any_state();
        let terminal = matches!(
            s,
            TaskState::Completed | TaskState::Submitted | TaskState::Backed | TaskState::Cancelled | TaskState::Error | TaskState::Skipped | TaskState::Aborted | TaskState::Removed
        );
        assert_eq!(s.is_completed(), terminal);
        assert_eq!(s.is_created(), matches!(s, TaskState::Ready | TaskState::Pending | TaskState::Interrupt));
        // exactly one of: none / created / running / finished
        let classes = [s.is_none(), s.is_created(), s.is_running(), s.is_completed()];
        let n = classes.iter().filter(|x| **x).count();
        assert_eq!(n, 1);
        if s.is_success() || s.is_error() || s.is_abort() || s.is_skip() {
            assert!(s.is_completed());
        }
        kani::cover!(s.is_completed());
        kani::cover!(!s.is_completed());
    }

    /// C11 / C12: the stored state string decodes to the state it was written from.
    #[kani::proof]
    #[kani::unwind(14)]
    fn state_string_roundtrip() {
        let s = any_state();
        let text: String = s.clone().into();
        let back: TaskState = text.as_str().into();
        assert_eq!(back, s);
    }

    /// C09 / C10: the message status codec is a bijection on 0..=3 and total on i8.
    #[kani::proof]
    fn message_status_codec() {
        let v: i8 = kani::any();
        let st: MessageStatus = v.into();
        let back: i8 = st.into();
        if (0..=3).contains(&v) {
            assert_eq!(back, v);
        } else {
            assert_eq!(back, 0);
        }
        let as64: i64 = st.into();
        assert_eq!(as64, back as i64);
    }

    /// C19 / C20: the limit in seconds is value x unit for every value a workflow can reasonably carry (0 ..= 10^12), without overflow.
    #[kani::proof]
    fn timeout_as_secs() {
        let value: i64 = kani::any();
        kani::assume(value >= 0 && value <= 1_000_000_000_000);
        let u: u8 = kani::any();
        kani::assume(u < 4);
        let (unit, f) = match u {
            0 => (TimeoutUnit::Second, 1i64),
            1 => (TimeoutUnit::Minute, 60),
            2 => (TimeoutUnit::Hour, 3600),
            _ => (TimeoutUnit::Day, 86400),
        };
        let l = TimeoutLimit { value, unit };
        assert_eq!(l.as_secs(), value * f);
        kani::cover!(u == 3 && value > 1_000_000);
    }
}
