"""Assemble program + interpreter with all environment models."""
import os
from .index import Program
from .interp import Interp, Stats
from . import intr_core, intr_coll, intr_serde, intr_misc, intr_js

_PROGRAM = None


def load_program(mir_paths, repo="/repo"):
    global _PROGRAM
    if _PROGRAM is None:
        _PROGRAM = Program(mir_paths, repo)
    return _PROGRAM


def make_interp(program, stats=None, extra=()):
    I = Interp(program, stats)
    intr_core.register(I)
    intr_coll.register(I)
    intr_serde.register(I)
    intr_misc.register(I)
    intr_misc.register_glob(I)
    intr_misc.register_regex_replace(I)
    intr_js.register(I)
    for mod in extra:
        mod.register(I)
    return I
