"""Check harness: MIR regeneration, path exploration, parallel scenarios, evidence, verdict lines."""
import json
import multiprocessing
import os
import random
import subprocess
import sys
import time
import traceback

import z3

from .values import Unsupported, RustPanic, PathInfeasible, Inconclusive
from .interp import Stats
from . import engine

VERIF = os.path.dirname(os.path.dirname(os.path.abspath(__file__)))
REPO = os.environ.get("VERIF_REPO", "/repo")
OUT = os.environ.get("VERIF_OUT", VERIF)   # evidence/ and replays/ of seeded-change lanes go elsewhere


def mir_paths(which=("acts",)):
    out = []
    for w in which:
        r = subprocess.run([sys.executable, os.path.join(VERIF, "tools", "mirdump.py"), w], stdout=subprocess.PIPE, stderr=subprocess.PIPE)
        if r.returncode != 0:
            sys.stderr.write(r.stderr.decode())
            raise SystemExit(2)
        out.append(r.stdout.decode().strip().split("\n")[-1])
    return out


class Violation:
    def __init__(self, prop, role, desc, scenario=None, decisions=None, model=None, detail=None):
        self.prop = prop
        self.role = role  # stable key naming the failing input / call site / history class
        self.desc = desc
        self.scenario = scenario
        self.decisions = decisions
        self.model = model
        self.detail = detail
        self.confirmed = None  # True: reproduced on the real engine; False: did not reproduce; None: not replayed
        self.replay = None

    def to_dict(self):
        return dict(property=self.prop, role=self.role, desc=self.desc, scenario=self.scenario, decisions=self.decisions,
                    model=self.model, detail=self.detail, confirmed=self.confirmed, replay=self.replay)


class ScenarioResult:
    def __init__(self, name):
        self.name = name
        self.paths = 0
        self.violations = []
        self.inconclusive = None
        self.fault = None
        self.samples = []
        self.witnesses = 0  # paths on which the oracle's antecedent fired (vacuity guard)
        self.obligations = 0
        self.stats = None
        self.extra = {}


def explore(I, name, run_path, max_paths=2000, time_budget=None, seed=0, part=None):
    """Enumerate the paths of one scenario by re-execution.  run_path(I, res) runs one path and
    appends violations / samples to res."""
    res = ScenarioResult(name)
    work = [[]]
    rnd = random.Random(seed)
    t0 = time.time()
    while work:
        if res.paths >= max_paths or (time_budget and time.time() - t0 > time_budget):
            res.inconclusive = "path/time cap reached with %d prefixes pending" % len(work)
            break
        prefix = work.pop()
        I.begin_path(prefix)
        scratch = ScenarioResult(name) if part is not None else res
        try:
            run_path(I, scratch)
        except PathInfeasible:
            res.extra["infeasible_or_out_of_bound_paths"] = res.extra.get("infeasible_or_out_of_bound_paths", 0) + 1
            continue
        except Inconclusive as e:
            res.inconclusive = "%s | decisions=%s" % (e, I.path.taken)
            work.extend(I.path.alternatives())
            continue
        except Unsupported as e:
            res.fault = "Unsupported: %s | decisions=%s" % (e, I.path.taken)
            break
        except RecursionError:
            res.fault = "RecursionError | decisions=%s" % (I.path.taken,)
            break
        if part is not None:
            if _owner(I.path.taken, part[1]) == part[0]:
                res.paths += 1
                res.violations += scratch.violations
                res.samples += scratch.samples[: max(0, 3 - len(res.samples))]
                res.witnesses += scratch.witnesses
                res.obligations += scratch.obligations
        else:
            res.paths += 1
        alts = I.path.alternatives()
        if part is not None:
            alts = [a for a in alts if len(a) < PART_DEPTH or _owner(a, part[1]) == part[0]]
        if seed:
            rnd.shuffle(alts)
        work.extend(alts)
    return res


PART_DEPTH = 3


def _owner(seq, n):
    s = list(seq[:PART_DEPTH]) + [0] * (PART_DEPTH - len(seq))
    return (s[0] * 31 + s[1] * 7 + s[2]) % n


_WORKER = {}


def _worker_init(mirs, extra_mods):
    P = engine.load_program(mirs, REPO)
    _WORKER["P"] = P
    _WORKER["mods"] = extra_mods


def _worker_run(job):
    modname, fname, args = job
    mod = __import__(modname, fromlist=["x"])
    fn = getattr(mod, fname)
    stats = Stats()
    I = engine.make_interp(_WORKER["P"], stats)
    t = time.time()
    try:
        res = fn(I, *args)
    except Unsupported as e:
        res = ScenarioResult(str(args)[:80])
        res.fault = "Unsupported: %s" % e
    except Exception:
        res = ScenarioResult(str(args)[:80])
        res.fault = "exception: " + traceback.format_exc()[-1500:]
    res.stats = dict(stmts=stats.stmts, calls=stats.calls, forks=stats.forks, solver_calls=stats.solver_calls,
                     solver_time=stats.solver_time, paths=stats.paths, blocks=len(stats.blocks_run),
                     items=sorted(stats.items_run.keys()), intrinsics=sorted(stats.intrinsics_used.keys()),
                     wall=time.time() - t)
    return res


class Check:
    def __init__(self, prop_id, tier="quick", seed=0, which=("acts",)):
        self.prop = prop_id
        self.tier = tier
        self.seed = seed
        self.t0 = time.time()
        self.mirs = mir_paths(which)
        # the replay binary (E4) is rebuilt from /repo's current tree with the verif hooks enabled
        from props import replay as _replay
        err = _replay.build()
        self.replay_build_error = err
        if err:
            print("MACHINERY-FAULT replay binary does not build: " + err[-1500:])
        self.results = []
        self.notes = []
        self.extra_evidence = {}

    def run_jobs(self, jobs, procs=None):
        """jobs: list of (module, function, args).  Each returns a ScenarioResult."""
        procs = procs or min(int(os.environ.get("VERIF_JOBS", "16")), max(1, len(jobs)))
        if procs == 1 or os.environ.get("VERIF_SERIAL"):
            _worker_init(self.mirs, None)
            out = [_worker_run(j) for j in jobs]
        else:
            ctx = multiprocessing.get_context("fork")
            with ctx.Pool(procs, initializer=_worker_init, initargs=(self.mirs, None)) as pool:
                out = pool.map(_worker_run, jobs, chunksize=1)
        self.results.extend(out)
        return out

    def run_kani(self, harnesses):
        """Kani kernels (thorough tiers): results are merged like scenario results; evidence lists them."""
        from props import kanirun
        rs = kanirun.run(self.prop, harnesses)
        self.results.extend(rs)
        self.extra_evidence["kani_harnesses"] = [dict(harness=r.name, verdict=("FAILED" if r.violations else "inconclusive" if (r.fault or r.inconclusive) else "SUCCESSFUL"),
                                                      seconds=r.extra.get("kani_seconds")) for r in rs]
        self.extra_evidence["kani"] = "cargo kani 0.68 / CBMC 6.11 (cadical) on /verif/kani (path dependency on the current tree, feature verif); unwinding assertions on"
        return rs

    # ------------------------------------------------------------------ verdict
    def finish(self, level="model_checking", rule="", assumptions=(), bounds=None, functions_note=None, explanation=None):
        known = load_known()
        viol = []
        for r in self.results:
            viol.extend(r.violations)
        faults = [(r.name, r.fault) for r in self.results if r.fault]
        inconcl = [(r.name, r.inconclusive) for r in self.results if r.inconclusive]
        # dedupe by role
        by_role = {}
        for v in viol:
            by_role.setdefault(v.role, []).append(v)
        new_roles = []
        known_roles = []
        diverged = []
        for role, vs in sorted(by_role.items()):
            if any(v.confirmed is False for v in vs) and not any(v.confirmed for v in vs):
                diverged.append((role, vs))
                continue
            k = known.get((self.prop, role))
            if k is not None and k.get("status") == "known":
                known_roles.append((role, vs, k))
            else:
                new_roles.append((role, vs))
        # replay files for new violations
        os.makedirs(os.path.join(OUT, "replays"), exist_ok=True)
        for f in os.listdir(os.path.join(OUT, "replays")):
            if f.startswith("%s-%s-" % (self.prop, self.tier)):
                os.unlink(os.path.join(OUT, "replays", f))
        lines = []
        for role, vs, k in known_roles:
            lines.append("KNOWN-FINDING: property=%s %s (%s; %d instance(s))" % (self.prop, role, k.get("what", vs[0].desc), len(vs)))
        for i, (role, vs) in enumerate(new_roles):
            path = os.path.join(OUT, "replays", "%s-%s-%d.json" % (self.prop, self.tier, i))
            with open(path, "w") as f:
                json.dump(dict(property=self.prop, role=role, instances=[v.to_dict() for v in vs[:5]]), f, indent=1, default=str)
            lines.append("VIOLATION property=%s replay=%s  # %s: %s" % (self.prop, path, role, vs[0].desc))
        # evidence
        stats = dict(stmts=0, calls=0, forks=0, solver_calls=0, solver_time=0.0, paths=0)
        items = set()
        intr = set()
        blocks = 0
        samples = []
        witnesses = 0
        obligations = 0
        for r in self.results:
            if r.stats:
                for k in stats:
                    stats[k] += r.stats.get(k, 0)
                items.update(r.stats["items"])
                intr.update(r.stats["intrinsics"])
                blocks += r.stats["blocks"]
            samples.extend(r.samples[:2])
            witnesses += r.witnesses
            obligations += r.obligations
        wit = {}
        for r in self.results:
            base = r.name.split("[")[0]
            wit[base] = wit.get(base, 0) + r.witnesses + (1 if r.fault else 0)
        vacuous = [b for b, w in wit.items() if w == 0]
        repo_items = sorted(i for i in items)
        ev = dict(
            property_id=self.prop, tier=self.tier, seed=self.seed, level=level,
            coverage=dict(
                states=max(1, stats["paths"]), transitions=max(1, stats["stmts"]), traces_validated_against_impl=int(self.extra_evidence.get("traces_validated_against_impl", 0)),
                samples=samples[:12] or ["(no sample)"],
                rule=rule, scenarios=len(self.results), paths=stats["paths"], mir_statements_executed=stats["stmts"],
                mir_basic_blocks_covered=blocks, forks=stats["forks"], solver_queries=stats["solver_calls"],
                solver_seconds=round(stats["solver_time"], 3), obligations=obligations, oracle_witnesses=witnesses,
                vacuous_scenarios=vacuous, inconclusive_scenarios=inconcl, machinery_faults=faults,
                functions_encoded=[i for i in repo_items if "{closure" not in i and "promoted" not in i][:400],
                functions_encoded_count=len(repo_items), environment_models_used=sorted(intr)[:300],
                counterexamples_replayed=sum(1 for v in viol if v.confirmed is not None), counterexamples_reproduced=sum(1 for v in viol if v.confirmed),
                bounds=bounds or {}, known_findings_matched=[r for r, _, _ in known_roles], new_violation_roles=[r for r, _ in new_roles],
                mir_files=self.mirs, explanation=explanation or "",
            ),
            assumptions=list(assumptions), wall_s=round(time.time() - self.t0, 2), violations=len(new_roles),
        )
        counters = {}
        for r in self.results:
            for k, v in (getattr(r, "extra", None) or {}).items():
                if isinstance(v, (int, float)):
                    counters[k] = counters.get(k, 0) + v
        if counters:
            ev["coverage"]["counters"] = counters
        ev["coverage"].update(self.extra_evidence)
        os.makedirs(os.path.join(OUT, "evidence"), exist_ok=True)
        with open(os.path.join(OUT, "evidence", self.prop + ".json"), "w") as f:
            json.dump(ev, f, indent=1, default=str)
        for l in lines:
            print(l)
        for n in self.notes:
            print("NOTE:", n)
        print("%s tier=%s scenarios=%d paths=%d stmts=%d solver=%d/%.1fs wall=%.1fs new=%d known=%d faults=%d inconclusive=%d vacuous=%d" % (
            self.prop, self.tier, len(self.results), stats["paths"], stats["stmts"], stats["solver_calls"], stats["solver_time"],
            time.time() - self.t0, len(new_roles), len(known_roles), len(faults), len(inconcl), len(vacuous)))
        for i, (role, vs) in enumerate(diverged):
            path = os.path.join(OUT, "replays", "%s-%s-diverged-%d.json" % (self.prop, self.tier, i))
            with open(path, "w") as f:
                json.dump(dict(property=self.prop, role=role, instances=[v.to_dict() for v in vs[:3]]), f, indent=1, default=str)
            print("MODEL-DIVERGENCE property=%s %s: counterexample did not reproduce on the real engine: %s" % (self.prop, role, json.dumps(vs[0].replay, default=str)[:600]))
        if diverged:
            faults = faults + [("replay", "model divergence on %d role(s)" % len(diverged))]
        if self.replay_build_error:
            faults = faults + [("replay-build", self.replay_build_error[-300:])]
        if faults:
            for n, f in faults[:5]:
                print("MACHINERY-FAULT scenario=%s %s" % (n, f[:1200]))
        if new_roles:
            return 1
        if faults:
            return 2
        if vacuous:
            print("MACHINERY-FAULT vacuous scenarios (oracle never fired): %s" % vacuous[:10])
            return 2
        return 0


def load_known():
    p = os.path.join(VERIF, "known_findings.json")
    out = {}
    if os.path.exists(p):
        for e in json.load(open(p)):
            out[(e["property"], e["role"])] = e
    return out
