"""Source-derived indexes for the MIR program: impl headers, enum variants, struct fields,
closure bodies, generic parameter names.  Everything is read from /repo's current tree."""
import os
import re
from . import mirparse
from .mirparse import scan, match_close, split_top

_IMPL_AT = re.compile(r"<impl at ([^:>]+):(\d+):(\d+): (\d+):(\d+)>")


_SPAN = re.compile(r"@([^ }]+:\d+:\d+: \d+:\d+)")


_SG_CACHE = {}


def strip_generics(p):
    r = _SG_CACHE.get(p)
    if r is None:
        r = _strip_generics(p)
        _SG_CACHE[p] = r
    return r


def _strip_generics(p):
    """Remove every <...> group that is a generic-argument list (`::<..>` or `Type<..>`),
    but keep a leading `<T as Trait>` qualified-self group (with inner generics stripped)."""
    out = []
    i = 0
    n = len(p)
    while i < n:
        c = p[i]
        if c == "<":
            j = match_close(p, i)
            # qualified self: at start or right after "::"?  `<T as Trait>::m` only occurs at the start
            if i == 0:
                inner = p[1:j]
                k, st = scan(inner, 0, (" as ",))
                if st is not None:
                    out.append("<" + strip_generics(inner[:k]) + " as " + strip_generics(inner[k + 4 :]) + ">")
                else:
                    out.append("<" + strip_generics(inner) + ">")
                i = j + 1
                continue
            inner = p[i + 1 : j]
            prev = "".join(out).rstrip(":").split("::")[-1] if out else ""
            if inner.startswith("impl ") and not (prev[:1].isupper()):
                if inner.startswith("impl ["):
                    out.append("<impl [T]>")
                else:
                    out.append("<" + strip_generics(inner) + ">")
                i = j + 1
                continue
            # generic args: drop; also drop a preceding "::"
            if len(out) >= 2 and out[-1] == ":" and out[-2] == ":":
                out.pop()
                out.pop()
            i = j + 1
            continue
        out.append(c)
        i += 1
    return "".join(out)


def short_type(t):
    """`std::sync::Arc<scheduler::process::task::Task>` -> `Arc<Task>` (last path segments)."""
    t = t.strip()
    res = []
    i = 0
    n = len(t)
    word = []

    def flush():
        if word:
            w = "".join(word)
            res.append(w.split("::")[-1] if not w.startswith("'") else w)
            word.clear()

    while i < n:
        c = t[i]
        if c.isalnum() or c in "_:'#":
            word.append(c)
        else:
            flush()
            res.append(c)
        i += 1
    flush()
    s = "".join(res)
    s = re.sub(r"'\w+\s*,?\s*", "", s)  # lifetimes
    s = s.replace("dyn ", "dyn_").replace("mut ", "mut_")
    s = s.replace(" ", "")
    return s


class SourceIndex:
    def __init__(self, repo="/repo"):
        self.repo = repo
        self._files = {}
        self.enums = {}  # short name -> [(variant, discr)]
        self.enum_paths = {}
        self.structs = {}  # short name -> [(field, type)]
        self.struct_attrs = {}
        self.enum_attrs = {}
        self.dups = set()
        self._scan_sources()

    def lines(self, rel):
        if rel not in self._files:
            p = os.path.join(self.repo, rel)
            try:
                with open(p, encoding="utf-8") as f:
                    self._files[rel] = f.read().split("\n")
            except OSError:
                self._files[rel] = None
        return self._files[rel]

    def span_text(self, rel, l1, c1, l2, c2, extra_lines=0):
        ls = self.lines(rel)
        if ls is None:
            return ""
        if l1 == l2:
            return ls[l1 - 1][c1 - 1 : c2 - 1]
        parts = [ls[l1 - 1][c1 - 1 :]]
        parts += ls[l1 : l2 - 1]
        parts.append(ls[l2 - 1][: c2 - 1])
        return "\n".join(parts)

    # ------------------------------------------------------------------ struct / enum scanning
    def _scan_sources(self):
        for root in ("acts/src", "store/sqlite/src"):
            base = os.path.join(self.repo, root)
            for dp, dn, fn in os.walk(base):
                if "/tests" in dp or dp.endswith("tests"):
                    continue
                for f in fn:
                    if f.endswith(".rs"):
                        rel = os.path.relpath(os.path.join(dp, f), self.repo)
                        self._scan_file(rel)

    def _scan_file(self, rel):
        ls = self.lines(rel)
        text = "\n".join(ls)
        # strip comments (line comments only; block comments are rare here)
        text_nc = re.sub(r"//[^\n]*", "", text)
        for m in re.finditer(r"(?:pub(?:\([^)]*\))?\s+)?(struct|enum)\s+(\w+)\s*(<[^>{]*>)?\s*(\{|\(|;)", text_nc):
            kind, name, _, opener = m.groups()
            # attributes before: look back up to 400 chars for #[...] lines directly preceding
            pre = text_nc[max(0, m.start() - 600) : m.start()]
            attrs = re.findall(r"#\[[^\]]*\]", pre.split("}")[-1].split(";")[-1])
            if opener == ";":
                if kind == "struct":
                    self._put(self.structs, name, [], rel)
                continue
            j = match_close(text_nc, m.end() - 1)
            body = text_nc[m.end() : j]
            if kind == "enum":
                variants = []
                nxt = 0
                for part in split_top(body):
                    part = re.sub(r"#\[[^\]]*\]\s*", "", part).strip()
                    if not part:
                        continue
                    mm = re.match(r"(\w+)\s*(?:\(|\{)?", part)
                    vname = mm.group(1)
                    md = re.search(r"=\s*(-?\d+)\s*$", part)
                    if md:
                        nxt = int(md.group(1))
                    payload = None
                    k = part.find("(")
                    if k >= 0:
                        payload = [x.strip() for x in split_top(part[k + 1 : match_close(part, k)])]
                    k2 = part.find("{")
                    if k2 >= 0 and (k < 0 or k2 < k):
                        payload = {}
                        for fld in split_top(part[k2 + 1 : match_close(part, k2)]):
                            fld = re.sub(r"#\[[^\]]*\]\s*", "", fld).strip()
                            if fld:
                                fm = re.match(r"(?:pub\s+)?(r#)?(\w+)\s*:\s*(.*)$", fld, re.S)
                                payload[fm.group(2)] = fm.group(3).strip()
                    variants.append((vname, nxt, payload))
                    nxt += 1
                self._put(self.enums, name, variants, rel)
                self.enum_attrs[name] = attrs
            else:
                fields = []
                if opener == "{":
                    for part in split_top(body):
                        fattrs = re.findall(r"#\[[^\]]*\]", part)
                        part = re.sub(r"#\[[^\]]*\]\s*", "", part).strip()
                        if not part:
                            continue
                        fm = re.match(r"(?:pub(?:\([^)]*\))?\s+)?(r#)?(\w+)\s*:\s*(.*)$", part, re.S)
                        if fm and any("cfg(test)" in x for x in fattrs):
                            continue
                        if fm:
                            fields.append((fm.group(2), " ".join(fm.group(3).split()), fattrs))
                else:
                    for idx, part in enumerate(split_top(body)):
                        part = re.sub(r"#\[[^\]]*\]\s*", "", part).strip()
                        part = re.sub(r"^pub(?:\([^)]*\))?\s+", "", part)
                        fields.append((str(idx), part, []))
                self._put(self.structs, name, fields, rel)
                self.struct_attrs[name] = attrs

    def _put(self, table, name, val, rel):
        if name in table:
            self.dups.add(name)
            # keep both under qualified names
            table[name + "@" + rel] = val
            return
        table[name] = val
        table[name + "@" + rel] = val

    def enum_variant(self, enum_short, variant):
        vs = self.enums.get(enum_short)
        if vs is None:
            return None
        for v, d, payload in vs:
            if v == variant:
                return d
        return None

    def _lookup(self, table, ty):
        """Look a struct/enum up by (possibly fully qualified) type text; resolves short-name
        collisions through the module path."""
        t = strip_generics(ty.strip().lstrip("&")) if ("<" in ty or "::" in ty) else ty.strip()
        segs = t.split("::")
        name = segs[-1]
        if "@" in ty:
            return table.get(ty)
        if name not in self.dups or len(segs) == 1:
            return table.get(name)
        mod = "/".join(segs[:-1])
        best = None
        for k in table:
            if k.startswith(name + "@"):
                rel = k.split("@", 1)[1]
                r = re.sub(r"^(acts/src|store/sqlite/src)/", "", rel)
                r = re.sub(r"(/mod)?\.rs$", "", r)
                if r == mod:
                    return table[k]
                if r.endswith(mod) or mod.endswith(r):
                    best = table[k]
        return best if best is not None else table.get(name)

    def struct_fields(self, name):
        return self._lookup(self.structs, name)

    def enum_def(self, name):
        return self._lookup(self.enums, name)


# Well-known std enums: name -> {variant: discr}
STD_ENUMS = {
    "Option": {"None": 0, "Some": 1},
    "Result": {"Ok": 0, "Err": 1},
    "Ordering": {"Less": -1, "Equal": 0, "Greater": 1},
    "Value": {"Null": 0, "Bool": 1, "Number": 2, "String": 3, "Array": 4, "Object": 5},
    "Cow": {"Borrowed": 0, "Owned": 1},
    "ControlFlow": {"Continue": 0, "Break": 1},
    "Poll": {"Ready": 0, "Pending": 1},
    "Entry": {"Vacant": 0, "Occupied": 1},
    "Bound": {"Included": 0, "Excluded": 1, "Unbounded": 2},
}


class Program:
    """MIR items + resolution indexes."""

    def __init__(self, mir_paths, repo="/repo"):
        self.items = {}
        for p in mir_paths:
            self.items.update(mirparse.parse_mir(p))
        self.src = SourceIndex(repo)
        self.closures = {}  # closure type string -> item
        self.impls = {}  # (short self type, trait short or None, method) -> [item]
        self.impl_headers = {}  # impl-at string -> (trait or None, self type text, generics)
        self.generic_names = {}  # item name -> [names]
        self.derived_impls = set()
        self.closure_spans = {}
        self._index_items()

    def _impl_header(self, key, rel, l1, c1, l2, c2):
        if key in self.impl_headers:
            return self.impl_headers[key]
        ls = self.src.lines(rel)
        res = (None, None, [], None)
        if ls is not None:
            head = self.src.span_text(rel, l1, c1, l2, c2)
            if head.startswith("impl"):
                # header text may stop before generics of self type; extend to the `{`
                more = "\n".join(ls[l1 - 1 : l1 + 12])
                more = more[c1 - 1 :]
                k, st = scan(more, 0, ("{", " where", "\nwhere"))
                head = " ".join(more[:k].split())
                res = self._parse_impl(head)
            else:
                # derive: span covers the trait ident inside #[derive(...)]; the type is the next struct/enum
                trait = head.strip()
                ty = None
                for ln in ls[l1 - 1 : l1 + 40]:
                    m = re.search(r"\b(?:struct|enum|union)\s+(\w+)", re.sub(r"//.*", "", ln))
                    if m:
                        ty = m.group(1)
                        break
                res = (trait, ty, [], None)
                self.derived_impls.add(key)
        self.impl_headers[key] = res
        return res

    @staticmethod
    def _parse_impl(head):
        # impl<G> Trait<..> for Type<..>   |  impl<G> Type<..>
        s = head[4:].strip()
        generics = []
        if s.startswith("<"):
            j = match_close(s, 0)
            for g in split_top(s[1:j]):
                g = g.strip()
                if g.startswith("'"):
                    continue
                generics.append(re.match(r"(?:const\s+)?(\w+)", g).group(1))
            s = s[j + 1 :].strip()
        k, st = scan(s, 0, (" for ",))
        if st is not None:
            trait = s[:k].strip()
            ty = s[k + 5 :].strip()
        else:
            trait = None
            ty = s
        targs = None
        if trait is not None:
            k2 = trait.find("<")
            if k2 >= 0 and trait.endswith(">"):
                targs = short_type(trait[k2 + 1 : -1])
            trait = strip_generics(trait).split("::")[-1]
        return (trait, ty, generics, targs)

    def _index_items(self):
        for name, it in self.items.items():
            if it.kind != "fn":
                continue
            if "{closure#" in name and it.argtys:
                t = it.argtys[0]
                t = re.sub(r"^&(?:'\w+ )?(?:mut )?", "", t)
                # coroutine bodies take Pin<&mut {coroutine@..}>
                m = re.match(r"std::pin::Pin<&mut (.*)>$", t)
                if m:
                    t = m.group(1)
                self.closures.setdefault(t, it)
                ms = _SPAN.search(t)
                if ms:
                    self.closure_spans.setdefault(ms.group(1), it)
            m = _IMPL_AT.search(name)
            if m and "{closure#" not in name and "::promoted[" not in name:
                rel, l1, c1, l2, c2 = m.group(1), int(m.group(2)), int(m.group(3)), int(m.group(4)), int(m.group(5))
                trait, ty, generics, targs = self._impl_header(m.group(0), rel, l1, c1, l2, c2)
                it.targs = targs
                rest = name[m.end() :]
                if rest.startswith("::") and "::" not in rest[2:]:
                    method = rest[2:]
                    if ty is not None:
                        key = (short_type(ty), trait, method)
                        self.impls.setdefault(key, []).append(it)

    # ------------------------------------------------------------------ resolution
    def closure_item(self, ty):
        it = self.closures.get(ty)
        if it is None:
            m = _SPAN.search(ty)
            if m:
                it = self.closure_spans.get(m.group(1))
        return it

    def is_derived(self, item):
        m = _IMPL_AT.search(item.name)
        return bool(m) and m.group(0) in self.derived_impls

    def find_impl(self, self_ty, trait, method, targs=None):
        """self_ty: type text as printed by MIR (fully qualified, with generics)."""
        st = short_type(self_ty)
        cands = self.impls.get((st, trait, method))
        if cands:
            if targs is not None and len(cands) > 1:
                ta = short_type(targs)
                ex = [c for c in cands if getattr(c, "targs", None) == ta]
                if ex:
                    return self._pick(ex, self_ty)
                return None
            if targs is not None and len(cands) == 1 and getattr(cands[0], "targs", None) not in (None, short_type(targs)):
                # a single impl with different trait arguments: accept only generic parameters
                if not re.fullmatch(r"[A-Z][A-Z0-9_]{0,7}", cands[0].targs or ""):
                    return None
            return self._pick(cands, self_ty)
        # generic impl: `impl<T> DbCollection for Collect<T>`: try with args replaced by T
        head = st.split("<")[0]
        for (k_ty, k_tr, k_m), its in self.impls.items():
            if k_m == method and k_tr == trait and k_ty.split("<")[0] == head and ("<" in k_ty) and k_ty != st:
                # accept if its args are all single upper-case generic names
                inner = k_ty[k_ty.index("<") + 1 : -1]
                if all(re.fullmatch(r"[A-Z][A-Z0-9_]{0,7}", a.strip()) for a in inner.split(",")):
                    return self._pick(its, self_ty)
        return None

    def _pick(self, cands, self_ty):
        if len(cands) == 1:
            return cands[0]
        # disambiguate by module prefix of the full type path
        full = strip_generics(self_ty)
        mod = "::".join(full.split("::")[:-1])
        for c in cands:
            if mod and c.name.startswith(mod + "::"):
                return c
        return cands[0]

    def generics_of(self, item):
        """Names of the generic type parameters of a fn item (impl-level first, then fn-level),
        read from the source at the item's definition."""
        if item.name in self.generic_names:
            return self.generic_names[item.name]
        names = []
        m = _IMPL_AT.search(item.name)
        rel = None
        if m:
            rel = m.group(1)
            trait, ty, generics, targs = self._impl_header(m.group(0), rel, int(m.group(2)), int(m.group(3)), int(m.group(4)), int(m.group(5)))
            names += generics
            start = int(m.group(2))
        else:
            start = 1
            # free function: module path -> file
            parts = item.name.split("::")
            for base in ("acts/src", "store/sqlite/src"):
                for cand in ("/".join(parts[:-1]) + ".rs", "/".join(parts[:-1]) + "/mod.rs"):
                    if self.src.lines(base + "/" + cand) is not None:
                        rel = base + "/" + cand
                        break
                if rel:
                    break
        method = item.name.split("::")[-1]
        if rel:
            ls = self.src.lines(rel)
            pat = re.compile(r"\bfn\s+" + re.escape(method) + r"\s*<")
            for i in range(start - 1, len(ls)):
                mm = pat.search(ls[i])
                if mm:
                    txt = " ".join(ls[i : i + 6])
                    k = txt.index("<", mm.start())
                    j = match_close(txt, k)
                    for g in split_top(txt[k + 1 : j]):
                        g = g.strip()
                        if g.startswith("'"):
                            continue
                        names.append(re.match(r"(?:const\s+)?(\w+)", g).group(1))
                    break
                if re.search(r"\bfn\s+" + re.escape(method) + r"\s*\(", ls[i]):
                    break
        self.generic_names[item.name] = names
        return names
