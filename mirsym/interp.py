"""Forking symbolic interpreter over rustc MIR (text form).

Exploration is by re-execution: a path is identified by its list of decisions; a run follows a given
decision prefix, takes option 0 at every new decision point and reports the alternatives, which the
explorer schedules as new prefixes.  Path feasibility at symbolic branches and every oracle
obligation are decided by z3.
"""
import re
import sys
import time
import threading
import z3

from .values import *
from .index import Program, strip_generics, short_type, STD_ENUMS
from .mirparse import split_top, match_close, scan

sys.setrecursionlimit(200000)
threading.stack_size(512 * 1024 * 1024)

INT_RANGES = {
    "i8": (-(2**7), 2**7 - 1), "i16": (-(2**15), 2**15 - 1), "i32": (-(2**31), 2**31 - 1),
    "i64": (-(2**63), 2**63 - 1), "i128": (-(2**127), 2**127 - 1), "isize": (-(2**63), 2**63 - 1),
    "u8": (0, 2**8 - 1), "u16": (0, 2**16 - 1), "u32": (0, 2**32 - 1), "u64": (0, 2**64 - 1),
    "u128": (0, 2**128 - 1), "usize": (0, 2**64 - 1),
}
_INT_SUFFIX = re.compile(r"^(-?\d[\d_]*)_?(i8|i16|i32|i64|i128|isize|u8|u16|u32|u64|u128|usize)$")
_FLOAT = re.compile(r"^(-?[\d_]+(?:\.[\d_]+)?(?:[eE][-+]?\d+)?)_?(f32|f64)$")


class Stats:
    def __init__(self):
        self.stmts = 0
        self.calls = 0
        self.forks = 0
        self.solver_calls = 0
        self.solver_time = 0.0
        self.items_run = {}
        self.blocks_run = set()
        self.intrinsics_used = {}
        self.paths = 0


class Path:
    """Decision sequence + path condition of one run."""

    def __init__(self, prefix=()):
        self.prefix = list(prefix)
        self.pos = 0
        self.taken = []
        self.nopts = []
        self.tags = []
        self.pc = []
        self.pc_key = 0

    def choose(self, n, tag=""):
        if n <= 1:
            return 0
        if self.pos < len(self.prefix):
            d = self.prefix[self.pos]
            if d >= n:
                raise PathInfeasible("stale prefix")
        else:
            d = 0
        self.pos += 1
        self.taken.append(d)
        self.nopts.append(n)
        self.tags.append(tag)
        return d

    def alternatives(self):
        out = []
        for i in range(len(self.prefix), len(self.taken)):
            for alt in range(1, self.nopts[i]):
                out.append(self.taken[:i] + [alt])
        return out


class Interp:
    def __init__(self, program, stats=None):
        self.p = program
        self.stats = stats or Stats()
        self.intrinsics = {}
        self.patterns = []  # (compiled regex on normalised name, fn)
        self.overrides = {}  # normalised repo item name -> python fn (environment boundary)
        self.monitors_pre = {}  # item name suffix -> fn(interp, item, args)
        self.monitors_post = {}
        self.path = Path()
        self.solver = z3.Solver()
        self.solver.set("timeout", 10000)
        self._feas_cache = {}
        self._const_cache = {}
        self._resolve_cache = {}
        self._norm_cache = {}
        self._pat_cache = {}
        self._tysub_cache = {}
        self.depth = 0
        self.max_depth = 3000
        self.stmt_budget = None
        self.world = None
        self.call_stack = []
        self.trace_calls = False
        self.fresh_counter = 0
        self.race = None  # two-thread race controller (mirsym/race.py) while a race step runs

    # ------------------------------------------------------------------ path / solver
    def begin_path(self, prefix=()):
        self.path = Path(prefix)
        self.solver = z3.Solver()
        self.solver.set("timeout", 10000)
        self.depth = 0
        self.call_stack = []
        self.fresh_counter = 0
        self.race = None
        self.stats.paths += 1

    def fresh(self, name, sort="int"):
        self.fresh_counter += 1
        n = "%s!%d" % (name, self.fresh_counter)
        if sort == "int":
            return z3.Int(n)
        if sort == "bool":
            return z3.Bool(n)
        if sort == "str":
            return z3.String(n)
        raise ValueError(sort)

    def assume(self, cond):
        if cond is True:
            return
        if cond is False:
            raise PathInfeasible("assume(false)")
        self.path.pc.append(cond)
        self.path.pc_key = hash((self.path.pc_key, cond.sexpr()))
        self.solver.add(cond)

    def check_sat(self, cond=None):
        """Is pc (and cond) satisfiable?  unknown counts as an inconclusive error."""
        key = (self.path.pc_key, cond.sexpr() if cond is not None else None)
        if key in self._feas_cache:
            return self._feas_cache[key]
        t = time.time()
        self.stats.solver_calls += 1
        if cond is not None:
            r = self.solver.check(cond)
        else:
            r = self.solver.check()
        self.stats.solver_time += time.time() - t
        if r == z3.unknown:
            raise Inconclusive("solver returned unknown: " + self.solver.reason_unknown())
        res = r == z3.sat
        self._feas_cache[key] = res
        return res

    def model(self, cond=None):
        self.stats.solver_calls += 1
        t = time.time()
        r = self.solver.check(cond) if cond is not None else self.solver.check()
        self.stats.solver_time += time.time() - t
        if r != z3.sat:
            return None
        return self.solver.model()

    def branch(self, conds, tag=""):
        """conds: list of python bools / z3 Bools, mutually exclusive and exhaustive.
        Returns the index of the branch taken on this path."""
        feas = []
        for i, c in enumerate(conds):
            if c is True:
                return i
            if c is False:
                continue
            c = z3.simplify(c)
            if z3.is_true(c):
                return i
            if z3.is_false(c):
                continue
            if self.check_sat(c):
                feas.append((i, c))
        if not feas:
            raise PathInfeasible("no feasible branch at " + tag)
        if len(feas) == 1:
            i, c = feas[0]
            # implied by pc; no need to record
            return i
        self.stats.forks += 1
        d = self.path.choose(len(feas), tag)
        i, c = feas[d]
        self.assume(c)
        return i

    def truth(self, v, tag=""):
        """Force a (possibly symbolic) bool to a concrete one by forking."""
        if v is True or v is False:
            return v
        if isinstance(v, int):
            return v != 0
        if is_sym(v):
            if z3.is_bool(v):
                return self.branch([z3.Not(v), v], tag) == 1
            return self.branch([v == 0, v != 0], tag) == 1
        raise Unsupported("truth of %r" % (v,))

    def concretize(self, v, candidates, tag=""):
        """Fork a symbolic int over an explicit candidate list (plus 'other')."""
        if not is_sym(v):
            return v
        conds = [v == c for c in candidates]
        i = self.branch(conds + [z3.And(*[v != c for c in candidates])] if candidates else [True], tag)
        if i < len(candidates):
            return candidates[i]
        raise Unsupported("concretize: value outside candidates at " + tag)

    # ------------------------------------------------------------------ registration
    def intrinsic(self, *names):
        def deco(fn):
            for n in names:
                self.intrinsics[n] = fn
            return fn

        return deco

    def pattern(self, *rxs):
        def deco(fn):
            for rx in rxs:
                self.patterns.append((re.compile(rx), fn))
            return fn

        return deco

    # ------------------------------------------------------------------ constants
    def const_value(self, text, frame):
        t = text
        if t == "()":
            return UNIT
        if t == "true":
            return True
        if t == "false":
            return False
        c0 = t[0]
        if c0 == '"':
            return _unescape(t[1:-1])
        if c0 == "'":
            return Char(_unescape(t[1:-1]))
        if c0.isdigit() or (c0 == "-" and len(t) > 1 and t[1].isdigit()):
            m = _INT_SUFFIX.match(t)
            if m:
                return int(m.group(1).replace("_", ""))
            m = _FLOAT.match(t)
            if m:
                return float(m.group(1).replace("_", ""))
            if t.replace("_", "").lstrip("-").isdigit():
                return int(t.replace("_", ""))
        if t.startswith('b"'):
            return VecV([ord(c) for c in _unescape(t[2:-1])])
        if t.startswith("{alloc") or t.startswith("{0x") or t.startswith("{transmute"):
            return Opaque("alloc", t)
        # named constant / static / promoted / associated const
        return self.named_const(t, frame)

    def named_const(self, t, frame):
        key = t
        if key in self._const_cache:
            return self._const_cache[key]
        m = re.match(r"^(.*?)((?:::\{closure#\d+\})*)::promoted\[(\d+)\]$", t)
        item = None
        if m:
            owner = self.resolve_item(m.group(1), frame, None)
            if owner is None:
                raise Unsupported("promoted owner not found: " + t)
            item = self.p.items.get(owner.name + m.group(2) + "::promoted[" + m.group(3) + "]")
        else:
            norm = strip_generics(t)
            item = self.p.items.get(norm)
            if item is None:
                k = self.assoc_const(norm)
                if k is not None:
                    return k
                it = self.resolve_item(t, frame, None)
                if it is not None and it.kind != "fn":
                    item = it
        if item is None:
            root = strip_generics(t).lstrip("<").split("::")[0]
            if root not in self.repo_roots():
                v = Opaque("extern_const", t)
                self._const_cache[key] = v
                return v
            raise Unsupported("unknown constant: " + t)
        if not item.blocks:
            m2 = re.search(r" = (.*);$", item.ret, re.S)
            if not m2:
                raise Unsupported("constant without body: " + t)
            txt = m2.group(1).strip()
            v = self.eval_operand([], __import__("mirsym.mirparse", fromlist=["x"]).parse_operand(txt), frame)
        else:
            v = self.run_item(item, [], None)
        self._const_cache[key] = v
        return v

    def repo_roots(self):
        r = getattr(self, "_repo_roots", None)
        if r is None:
            r = set()
            for n in self.p.items:
                r.add(n.lstrip("<").split("::")[0])
            self._repo_roots = r
        return r

    def assoc_const(self, norm):
        m = re.match(r"^(?:core::num::<impl )?(i8|i16|i32|i64|i128|isize|u8|u16|u32|u64|u128|usize)>?::(MAX|MIN)$", norm)
        if m:
            lo, hi = INT_RANGES[m.group(1)]
            return hi if m.group(2) == "MAX" else lo
        return None

    # ------------------------------------------------------------------ places
    def place_ptr(self, locs, place, frame):
        _, local, projs = place
        p = Ptr(locs, local)
        for pr in projs:
            k = pr[0]
            if k == "deref":
                v = p.get()
                if isinstance(v, (Ptr, ValPtr, MapSlot)):
                    p = v
                elif isinstance(v, BoxV):
                    p = Ptr(v.c, 0)
                elif isinstance(v, (str, SliceV, VecV, Ser)):
                    p = ValPtr(v)
                elif v is UNINIT:
                    raise Unsupported("deref of uninitialised local _%d in %s" % (local, frame.name))
                else:
                    # a reference modelled by value (e.g. &T where T is a python scalar)
                    p = ValPtr(v)
            elif k == "field":
                v = p.get()
                if isinstance(v, Agg) and v.ty == "MaybeUninit":
                    pass  # transparent wrappers: MaybeUninit / ManuallyDrop / MaybeDangling
                elif isinstance(v, (Agg, Enum)):
                    p = Ptr(v.f, pr[1])
                elif isinstance(v, BoxV):
                    # Box internals (Unique/NonNull): stay on the box
                    p = ValPtr(v)
                elif isinstance(v, WeakV) or isinstance(v, Opaque):
                    p = ValPtr(v)
                else:
                    raise Unsupported("field %d of %r in %s" % (pr[1], v, frame.name))
            elif k == "downcast":
                pass
            elif k == "index":
                v = p.get()
                idx = locs[pr[1]]
                if is_sym(idx):
                    raise Unsupported("symbolic index")
                p = self._elem_ptr(v, idx)
            elif k == "cindex":
                v = p.get()
                a, lo, hi = as_list(v)
                idx = (hi - pr[1]) if pr[3] else lo + pr[1]
                p = Ptr(a, idx)
            elif k == "subslice":
                v = p.get()
                a, lo, hi = as_list(v)
                nlo = lo + pr[1]
                nhi = hi - pr[2] if pr[3] else (lo + pr[2] if pr[2] else hi)
                p = ValPtr(SliceV(a, nlo, nhi))
            else:
                raise Unsupported("projection " + k)
        return p

    def _elem_ptr(self, v, idx):
        a, lo, hi = as_list(v)
        if idx < 0 or lo + idx >= hi:
            raise RustPanic("index out of bounds: the len is %d but the index is %d" % (hi - lo, idx))
        return Ptr(a, lo + idx)

    def read_place(self, locs, place, frame):
        _, local, projs = place
        if not projs:
            return locs[local]
        return self.place_ptr(locs, place, frame).get()

    def write_place(self, locs, place, v, frame):
        _, local, projs = place
        if not projs:
            locs[local] = v
            return
        self.place_ptr(locs, place, frame).set(v)

    def eval_operand(self, locs, op, frame):
        k = op[0]
        if k == "move":
            return self.read_place(locs, op[1], frame)
        if k == "copy":
            v = self.read_place(locs, op[1], frame)
            if isinstance(v, (Agg, Enum)):
                return copyval(v)
            return v
        if k == "const":
            if op[1] == "ZeroSized":
                return self.zero_sized(op[2], frame)
            return self.const_value(op[1], frame)
        if k == "fn":
            return FnRef(op[1])
        raise Unsupported("operand " + k)

    def zero_sized(self, ty, frame):
        ty = ty.strip()
        if ty.startswith("{closure@") or ty.startswith("{coroutine@") or ty.startswith("{async"):
            return ClosureAgg(ty, [], [], frame.tysub if frame is not None else None)
        m = re.match(r"^(?:unsafe )?(?:extern \"[^\"]*\" )?fn\(.*\{(.*)\}$", ty, re.S)
        if m:
            return FnRef(m.group(1))
        if ty == "()":
            return UNIT
        return Agg(ty, [])

    # ------------------------------------------------------------------ rvalues
    def eval_rvalue(self, locs, rv, frame, dest_ty=None):
        k = rv[0]
        if k == "use":
            return self.eval_operand(locs, rv[1], frame)
        if k == "ref" or k == "rawptr":
            place = rv[2]
            _, local, projs = place
            if projs and projs[-1][0] == "deref":
                # reborrow: &*p == p (keeps fat pointers such as &str intact)
                inner = ("place", local, projs[:-1])
                v = self.read_place(locs, inner, frame)
                if isinstance(v, (Ptr, ValPtr, MapSlot)):
                    return v
                if isinstance(v, BoxV):
                    return Ptr(v.c, 0)
                if isinstance(v, (str, SliceV, Ser)):
                    return v
                return ValPtr(v) if not isinstance(v, (Agg, Enum, VecV, MapV)) else Ptr([v], 0)
            p = self.place_ptr(locs, place, frame)
            if isinstance(p, ValPtr) and isinstance(p.v, (str, SliceV, Ser)):
                return p.v
            return p
        if k == "bin":
            a = self.eval_operand(locs, rv[2], frame)
            b = self.eval_operand(locs, rv[3], frame)
            return self.binop(rv[1], a, b, dest_ty)
        if k == "un":
            a = self.eval_operand(locs, rv[2], frame)
            return self.unop(rv[1], a)
        if k == "discr":
            v = self.read_place(locs, rv[1], frame)
            if isinstance(v, Enum):
                return v.d
            if isinstance(v, JNum):
                raise Unsupported("discriminant of Number")
            raise Unsupported("discriminant of %r in %s" % (v, frame.name))
        if k == "cast":
            v = self.eval_operand(locs, rv[1], frame)
            return self.cast(v, rv[2], rv[3], frame)
        if k == "agg_tuple":
            if not rv[1]:
                return UNIT
            return Agg("tuple", [self.eval_operand(locs, o, frame) for o in rv[1]])
        if k == "agg_array":
            return VecV([self.eval_operand(locs, o, frame) for o in rv[1]])
        if k == "repeat":
            v = self.eval_operand(locs, rv[1], frame)
            n = rv[2]
            m = _INT_SUFFIX.match(n.replace("const ", ""))
            cnt = int(m.group(1)) if m else int(n)
            return VecV([copyval(v) for _ in range(cnt)])
        if k == "agg_adt":
            return self.make_adt(locs, rv[1], rv[2], frame)
        if k == "agg_closure":
            return ClosureAgg(rv[1], [self.eval_operand(locs, o, frame) for o in rv[2].values()], list(rv[2].keys()), frame.tysub)
        if k == "len":
            a, lo, hi = as_list(self.read_place(locs, rv[1], frame))
            return hi - lo
        if k == "cfd":
            return self.read_place(locs, rv[1], frame)
        if k == "box":
            return BoxV(UNINIT, "box")
        if k == "nullary":
            if rv[1] in ("UbChecks", "ContractChecks"):
                return False
            return 8
        raise Unsupported("rvalue " + k)

    def make_adt(self, locs, path, fields, frame):
        norm = strip_generics(path)
        segs = norm.split("::")
        last = segs[-1]
        if isinstance(fields, dict):
            vals = [self.eval_operand(locs, o, frame) for o in fields.values()]
            # struct-like enum variant?
            if len(segs) >= 2:
                d = self.enum_discr(segs[-2], last)
                if d is not None:
                    return Enum(segs[-2], d, vals, last)
            return self.wrap_struct(norm, vals, path, frame)
        vals = [self.eval_operand(locs, o, frame) for o in fields]
        if len(segs) >= 2:
            d = self.enum_discr(segs[-2], last)
            if d is not None:
                if segs[-2] == "Value" and last == "Number" and vals and not isinstance(vals[0], JNum):
                    pass
                return Enum(segs[-2], d, vals, last)
        # tuple struct / unit struct
        return self.wrap_struct(norm, vals, path, frame)

    def wrap_struct(self, norm, vals, path=None, frame=None):
        g = None
        if path is not None and "<" in path:
            g = [self.subst(x, frame) for x in generic_args_flat(path)]
        return Agg(norm, vals, g)

    def enum_discr(self, enum_short, variant):
        e = STD_ENUMS.get(enum_short)
        if e is not None and variant in e:
            return e[variant]
        return self.p.src.enum_variant(enum_short, variant)

    # ------------------------------------------------------------------ arithmetic
    def binop(self, name, a, b, dest_ty=None):
        sym = is_sym(a) or is_sym(b)
        if isinstance(a, Char):
            a = ord(a.c)
        if isinstance(b, Char):
            b = ord(b.c)
        if name in ("Eq", "Ne"):
            if sym:
                if z3.is_bool(a) or z3.is_bool(b) or isinstance(a, bool) or isinstance(b, bool):
                    a = _to_z3_bool(a)
                    b = _to_z3_bool(b)
                r = a == b
                return z3.simplify(r if name == "Eq" else z3.Not(r))
            if isinstance(a, (Ptr, BoxV)) or isinstance(b, (Ptr, BoxV)):
                r = a is b or (isinstance(a, Ptr) and isinstance(b, Ptr) and a.c is b.c and a.k == b.k)
            else:
                r = a == b
            return r if name == "Eq" else not r
        if name in ("Lt", "Le", "Gt", "Ge"):
            if sym:
                return z3.simplify({"Lt": a < b, "Le": a <= b, "Gt": a > b, "Ge": a >= b}[name])
            return {"Lt": a < b, "Le": a <= b, "Gt": a > b, "Ge": a >= b}[name]
        if name in ("Add", "AddUnchecked"):
            return a + b
        if name in ("Sub", "SubUnchecked"):
            return a - b
        if name in ("Mul", "MulUnchecked"):
            return a * b
        if name in ("AddWithOverflow", "SubWithOverflow", "MulWithOverflow"):
            r = a + b if name[0] == "A" else (a - b if name[0] == "S" else a * b)
            lo, hi = -(2**63), 2**63 - 1
            if dest_ty:
                m = re.match(r"\((\w+), bool\)", dest_ty)
                if m and m.group(1) in INT_RANGES:
                    lo, hi = INT_RANGES[m.group(1)]
            if is_sym(r):
                ov = z3.simplify(z3.Or(r < lo, r > hi))
            else:
                ov = r < lo or r > hi
            return Agg("tuple", [r, ov])
        if name == "Div":
            if sym:
                return _z3_div(a, b)
            if b == 0:
                raise RustPanic("attempt to divide by zero")
            if isinstance(a, float) or isinstance(b, float):
                return a / b
            q = abs(a) // abs(b)
            return q if (a >= 0) == (b >= 0) else -q
        if name == "Rem":
            if sym:
                return _z3_rem(a, b)
            if b == 0:
                raise RustPanic("attempt to calculate the remainder with a divisor of zero")
            r = abs(a) % abs(b)
            return r if a >= 0 else -r
        if name in ("BitAnd", "BitOr", "BitXor"):
            if isinstance(a, bool) and isinstance(b, bool):
                return {"BitAnd": a and b, "BitOr": a or b, "BitXor": a != b}[name]
            if sym:
                if z3.is_bool(a) or z3.is_bool(b) or isinstance(a, bool) or isinstance(b, bool):
                    a = _to_z3_bool(a)
                    b = _to_z3_bool(b)
                    return z3.simplify({"BitAnd": z3.And(a, b), "BitOr": z3.Or(a, b), "BitXor": z3.Xor(a, b)}[name])
                raise Unsupported("symbolic bit operation")
            return {"BitAnd": a & b, "BitOr": a | b, "BitXor": a ^ b}[name]
        if name in ("Shl", "ShlUnchecked"):
            if sym:
                raise Unsupported("symbolic shift")
            return a << b
        if name in ("Shr", "ShrUnchecked"):
            if sym:
                raise Unsupported("symbolic shift")
            return a >> b
        if name == "Cmp":
            if sym:
                i = self.branch([a < b, a == b, a > b], "Cmp")
                return Enum("Ordering", i - 1, [], ["Less", "Equal", "Greater"][i])
            d = -1 if a < b else (0 if a == b else 1)
            return Enum("Ordering", d, [], ["Less", "Equal", "Greater"][d + 1])
        if name == "Offset":
            raise Unsupported("pointer offset")
        raise Unsupported("binop " + name)

    def unop(self, name, a):
        if name == "Not":
            if isinstance(a, bool):
                return not a
            if is_sym(a):
                if z3.is_bool(a):
                    return z3.simplify(z3.Not(a))
                raise Unsupported("symbolic bitwise not")
            return ~a
        if name == "Neg":
            return -a
        if name == "PtrMetadata":
            if isinstance(a, str):
                return len(a.encode("utf-8"))
            try:
                arr, lo, hi = as_list(a)
                return hi - lo
            except Unsupported:
                return UNIT
        raise Unsupported("unop " + name)

    def cast(self, v, ty, kind, frame):
        if kind == "IntToInt" or kind == "FloatToInt":
            if isinstance(v, Enum):
                v = v.d
            if isinstance(v, bool):
                v = 1 if v else 0
            if isinstance(v, Char):
                v = ord(v.c)
            t = ty.strip()
            if kind == "FloatToInt" and t in INT_RANGES:
                # Rust's float -> int `as`: truncation toward zero, saturating at the bounds of the target type, NaN -> 0
                lo, hi = INT_RANGES[t]
                if isinstance(v, float):
                    if v != v:
                        return 0
                    if v == float("inf") or v >= hi:
                        return hi
                    if v == float("-inf") or v <= lo:
                        return lo
                    return int(v)
                if is_sym(v) and z3.is_real(v):
                    tr = z3.If(v >= 0, z3.ToInt(v), -z3.ToInt(-v))
                    return z3.simplify(z3.If(v >= hi, z3.IntVal(hi), z3.If(v <= lo, z3.IntVal(lo), tr)))
            if isinstance(v, float):
                v = int(v)
            if is_sym(v) and z3.is_real(v):
                v = z3.If(v >= 0, z3.ToInt(v), -z3.ToInt(-v))
            if t in INT_RANGES:
                lo, hi = INT_RANGES[t]
                width = hi - lo + 1
                if is_sym(v):
                    if z3.is_bool(v):
                        v = z3.If(v, 1, 0)
                    # exact wrap-around semantics on mathematical ints
                    if self._fits(v, lo, hi):
                        return v
                    w = (v - lo) % width + lo
                    return z3.simplify(w)
                return (v - lo) % width + lo
            if t == "char":
                return Char(chr(v))
            return v
        if kind == "IntToFloat":
            if is_sym(v):
                return z3.ToReal(v)
            return float(v)
        if kind == "FloatToFloat":
            return v
        # pointer / unsize / transmute casts keep the value
        return v

    def _fits(self, v, lo, hi):
        """Does pc imply lo <= v <= hi?  (avoids mod terms in the common case)"""
        try:
            return not self.check_sat(z3.Or(v < lo, v > hi))
        except Unsupported:
            return False

    # ------------------------------------------------------------------ calls
    def resolve_item(self, raw, frame, args):
        """Map a callee path as printed at a call site to a MIR item of the program (or None)."""
        sub = frame.tysub if frame is not None else None
        key = (raw, tuple(sorted(sub.items())) if sub else None)
        if key in self._resolve_cache:
            r = self._resolve_cache[key]
            if r != "dyn":
                return r
        r = self._resolve_item(raw, frame, args)
        if r == "dyn":
            self._resolve_cache[key] = "dyn"
            return self._resolve_dyn(raw, frame, args)
        self._resolve_cache[key] = r
        return r

    def _resolve_item(self, raw, frame, args):
        items = self.p.items
        norm = strip_generics(raw)
        if norm in items:
            return items[norm]
        mi = re.match(r"^(.*?)::<impl (.+?)>::(\w+)(::<.*>)?$", raw, re.S)
        if mi and not raw.startswith("<"):
            mod, ity, meth = mi.group(1), mi.group(2), mi.group(3)
            tr = None
            kf, stf = scan(ity, 0, (" for ",))
            if stf is not None:
                tr = strip_generics(ity[:kf]).split("::")[-1]
                ity = ity[kf + 5 :]
            st = short_type(ity)
            for (k_ty, k_tr, k_m), its in self.p.impls.items():
                if k_m == meth and k_ty == st and (tr is None or k_tr == tr):
                    for c in its:
                        if c.name.startswith(mod + "::"):
                            return c
            return None
        if raw.startswith("<"):
            j = match_close(raw, 0)
            inner = raw[1:j]
            k, st = scan(inner, 0, (" as ",))
            rest = raw[j + 1 :]
            if not rest.startswith("::"):
                return None
            method = strip_generics(rest[2:])
            if "::" in method:
                return None
            targs = None
            if st is None:
                ty, trait = inner, None
            else:
                tr_full = inner[k + 4 :]
                ty, trait = inner[:k], strip_generics(tr_full).split("::")[-1]
                kk = tr_full.find("<")
                if kk >= 0 and tr_full.endswith(">"):
                    targs = self.subst(tr_full[kk + 1 : -1], frame)
            ty = self.subst(ty, frame)
            if not self._maybe_local(ty, inner[k + 4 :] if st is not None else None):
                return None
            it = self.p.find_impl(ty, trait, method, targs)
            if it is not None:
                return it
            sty = short_type(ty)
            if sty.startswith("dyn_") or re.fullmatch(r"[A-Z][A-Z0-9_]{0,7}", sty) or sty == "Self":
                return "dyn"
            # trait default method?
            if trait is not None:
                tp = strip_generics(inner[k + 4 :]) + "::" + method
                if tp in items:
                    return items[tp]
            return None
        # Type::method  (inherent or trait-qualified path)
        k = _rfind_top(raw, "::")
        if k >= 0 and raw[k + 2 : k + 3] == "<":
            raw = raw[:k]
            k = _rfind_top(raw, "::")
        if k < 0:
            return None
        ty = raw[:k].replace("::<", "<")
        method = strip_generics(raw[k + 2 :])
        ty = self.subst(ty, frame)
        it = self.p.find_impl(strip_generics_tail(ty), None, method)
        if it is not None:
            return it
        # any trait impl with that self type (e.g. `Vars::new` is inherent; `Act::init` may be a trait method)
        st = short_type(strip_generics_tail(ty))
        for (k_ty, k_tr, k_m), its in self.p.impls.items():
            if k_m == method and k_ty == st:
                return self.p._pick(its, ty)
        return None

    def _maybe_local(self, ty, trait_full):
        """Orphan rule: a repo impl needs a local trait or a local (or generic/dyn) self type."""
        roots = self.repo_roots()
        t = ty.strip()
        while t.startswith("&") or t.startswith("mut ") or t.startswith("'"):
            if t.startswith("&"):
                t = t[1:].lstrip()
            elif t.startswith("mut "):
                t = t[4:]
            else:
                t = t.split(" ", 1)[1] if " " in t else ""
        head = t.split("<")[0].strip("()[] ")
        root = head.split("::")[0]
        if root in roots and "::_::_serde" not in head:
            return True
        if "::" not in head and (re.fullmatch(r"[A-Z][A-Z0-9_]{0,7}", head) or head.startswith("dyn ") or head == "Self"):
            return True
        if head.startswith("dyn ") or head.startswith("(dyn "):
            return True
        if trait_full is not None:
            tr = trait_full.strip()
            if tr.split("::")[0] in roots and "::_::_serde" not in tr:
                return True
            for w in re.findall(r"(?<![\w:])(\w+)::", tr):
                if w in roots and w not in ("std", "core", "alloc"):
                    return True
        return False

    def _resolve_dyn(self, raw, frame, args):
        """Dynamic dispatch on the run-time type of the receiver."""
        if not args:
            return None
        j = match_close(raw, 0)
        inner = raw[1:j]
        k, st = scan(inner, 0, (" as ",))
        trait = strip_generics(inner[k + 4 :]).split("::")[-1] if st else None
        method = strip_generics(raw[j + 3 :])
        recv = deref_all(args[0])
        ty = None
        if isinstance(recv, (Agg, Enum)):
            ty = recv.ty
        elif isinstance(recv, str):
            ty = "String"
        if ty is None:
            return None
        it = self.p.find_impl(ty, trait, method)
        if it is None and isinstance(args[0], (BoxV,)) or it is None:
            # impl for Arc<T>?
            it2 = self.p.find_impl("Arc<" + short_type(ty) + ">", trait, method)
            if it2 is not None:
                return it2
        if it is None and trait is not None:
            tp = strip_generics(inner[k + 4 :]) + "::" + method
            if tp in self.p.items:
                return self.p.items[tp]
        return it

    def subst(self, ty, frame):
        if frame is None or not frame.tysub:
            return ty
        for name, val in frame.tysub.items():
            if name in ty:
                ty = re.sub(r"(?<![\w:])" + re.escape(name) + r"(?![\w])", lambda m: val, ty)
        return ty

    def call_raw(self, raw, args, frame, dest_ty=None):
        """Call the function named by a call-site path."""
        norm = self._norm_cache.get(raw)
        if norm is None:
            norm = strip_generics(raw)
            if norm.startswith("core::"):
                norm = "std::" + norm[6:]
            elif norm.startswith("alloc::"):
                norm = "std::" + norm[7:]
            self._norm_cache[raw] = norm
        ov = self.overrides.get(norm)
        if ov is not None:
            self.stats.intrinsics_used[norm] = self.stats.intrinsics_used.get(norm, 0) + 1
            return ov(self, args, CallCtx(raw, norm, frame, dest_ty, self))
        it = self.resolve_item(raw, frame, args)
        if it is not None and it.kind == "fn" and _DERIVE_INTR.search(norm) and self.p.is_derived(it):
            it = None
        if it is not None and it.kind == "fn":
            ov = self.overrides.get(it.name)
            if ov is not None:
                self.stats.intrinsics_used[it.name] = self.stats.intrinsics_used.get(it.name, 0) + 1
                return ov(self, args, CallCtx(raw, norm, frame, dest_ty, self))
            if not it.blocks:
                raise Unsupported("item without body: " + it.name)
            return self.run_item(it, args, self.make_tysub(it, raw, frame, args))
        fn = self.intrinsics.get(norm)
        if fn is None:
            fn = self._pat_cache.get(norm, 0)
            if fn == 0:
                fn = None
                for rx, f in self.patterns:
                    if rx.search(norm):
                        fn = f
                        break
                self._pat_cache[norm] = fn
        if fn is None:
            raise Unsupported("no model for callee `%s` (norm `%s`) called from %s" % (raw[:300], norm[:200], frame.name if frame else "?"))
        self.stats.intrinsics_used[norm] = self.stats.intrinsics_used.get(norm, 0) + 1
        return fn(self, args, CallCtx(raw, norm, frame, dest_ty, self))

    def make_tysub(self, item, raw, frame, args=None):
        names = self.p.generics_of(item)
        if not names:
            return None
        ck = None
        if not (raw.startswith("<dyn ") or raw.startswith("<(dyn ")):
            ck = (item.name, raw, tuple(sorted(frame.tysub.items())) if frame is not None and frame.tysub else None)
            r = self._tysub_cache.get(ck)
            if r is not None and r[0]:
                return r[1]
        sub = self._make_tysub(names, raw, frame, args)
        if ck is not None and generic_args_flat(raw):
            self._tysub_cache[ck] = (True, sub)
        return sub

    def _make_tysub(self, names, raw, frame, args=None):
        vals = generic_args_flat(raw)
        vals = [self.subst(v, frame) for v in vals]
        sub = {}
        if args and (raw.startswith("<dyn ") or raw.startswith("<(dyn ") or not vals):
            recv = deref_all(args[0])
            if isinstance(recv, Agg) and recv.g:
                for n, v in zip(names, recv.g):
                    sub[n] = v
                return sub
        # align from the right: fn-level generics are the trailing groups
        if len(vals) >= len(names):
            vals = vals[len(vals) - len(names) :]
            for n, v in zip(names, vals):
                sub[n] = v
        else:
            # trailing parameters have defaults or are inferred
            for n, v in zip(names, vals):
                sub[n] = v
            for n in names[len(vals) :]:
                sub.setdefault(n, "()")
        return sub

    def call_value(self, f, args, frame=None, dest_ty=None):
        """Call a closure / fn item value with a python list of arguments."""
        if isinstance(f, (Ptr, ValPtr)):
            f = f.get()
        if isinstance(f, BoxV):
            f = f.c[0]
        if isinstance(f, FnRef):
            return self.call_raw(f.path, list(args), frame, dest_ty)
        if isinstance(f, Agg) and f.ty and (f.ty.startswith("{closure@") or f.ty.startswith("{coroutine@")):
            item = self.p.closure_item(f.ty)
            if item is None:
                raise Unsupported("closure body not found: " + f.ty)
            self_ty = item.argtys[0]
            if self_ty.startswith("&"):
                env = Ptr([f], 0)
            else:
                env = f
            # closure bodies take the arguments untupled; generic parameters are those of the defining function
            ts = getattr(f, "ts", None)
            if ts is None and frame is not None:
                ts = frame.tysub
            return self.run_item(item, [env] + list(args), ts)
        if isinstance(f, PyFn):
            return f.fn(self, list(args))
        raise Unsupported("call of non-callable %r" % (f,))

    # ------------------------------------------------------------------ the main loop
    def run_item(self, item, args, tysub):
        st = self.stats
        st.calls += 1
        st.items_run[item.name] = st.items_run.get(item.name, 0) + 1
        self.depth += 1
        if self.depth > self.max_depth:
            raise Unsupported("call depth exceeded in " + item.name)
        pre = self.monitors_pre.get(item.name)
        if pre is not None:
            pre(self, item, args)
        nloc = max(item.locals) + 1 if item.locals else 1
        locs = [UNINIT] * nloc
        for i, a in enumerate(args):
            locs[i + 1] = a
        frame = Frame(item, locs, tysub)
        self.call_stack.append(frame)
        if self.trace_calls:
            print("  " * min(self.depth, 40) + "-> " + item.name[-90:], file=sys.stderr)
        blocks = item.blocks
        bb = 0
        ltypes = item.locals
        try:
            while True:
                blk = blocks[bb]
                frame.bb = bb
                stmts = blk.stmts()
                st.blocks_run.add((item.name, bb))
                nxt = None
                for s in stmts:
                    st.stmts += 1
                    k = s[0]
                    if k == "assign":
                        dest = s[1]
                        dty = ltypes.get(dest[1]) if not dest[2] else None
                        v = self.eval_rvalue(locs, s[2], frame, dty)
                        if dest[2]:
                            self.place_ptr(locs, dest, frame).set(v)
                        else:
                            locs[dest[1]] = v
                    elif k == "call":
                        fop = s[2]
                        argv = [self.eval_operand(locs, a, frame) for a in s[3]]
                        dest = s[1]
                        dty = None
                        if dest is not None and not dest[2]:
                            dty = ltypes.get(dest[1])
                        if fop[0] == "fn":
                            r = self.call_raw(fop[1], argv, frame, dty)
                        else:
                            fv = self.eval_operand(locs, fop, frame)
                            r = self.call_value(fv, argv, frame, dty)
                        if s[4] is None:
                            raise Unsupported("diverging call returned: " + s[5][:100])
                        if dest is not None:
                            self.write_place(locs, dest, r, frame)
                        nxt = s[4]
                    elif k == "goto":
                        nxt = s[1]
                    elif k == "switch":
                        v = self.eval_operand(locs, s[1], frame)
                        nxt = self.do_switch(v, s[2], s[3], frame)
                    elif k == "drop":
                        if self.race is not None and self.race.active:
                            self.race.dropped(self.read_place(locs, s[1], frame))
                        nxt = s[2]
                    elif k == "return":
                        post = self.monitors_post.get(item.name)
                        if post is not None:
                            post(self, item, args, locs[0])
                        return locs[0]
                    elif k == "assert":
                        c = self.eval_operand(locs, s[1], frame)
                        okc = self.truth(c, "assert@" + item.name[-40:]) == s[2]
                        if not okc:
                            raise RustPanic("assertion failed: " + s[3][:120])
                        nxt = s[4]
                    elif k == "nop":
                        pass
                    elif k == "setdiscr":
                        p = self.place_ptr(locs, s[1], frame)
                        v = p.get()
                        if isinstance(v, Enum):
                            v.d = s[2]
                        else:
                            raise Unsupported("SetDiscriminant on %r" % (v,))
                    elif k == "unreachable":
                        raise Unsupported("reached `unreachable` in " + item.name)
                    elif k == "resume":
                        raise Unsupported("resume in " + item.name)
                    else:
                        raise Unsupported("statement " + k)
                if nxt is None:
                    raise Unsupported("block without terminator in " + item.name)
                bb = nxt
        except Unsupported as e:
            if not getattr(e, "_located", False):
                e._located = True
                e.args = (e.args[0] + "\n    at %s bb%d" % (item.name, bb),) + e.args[1:]
            raise
        finally:
            self.depth -= 1
            self.call_stack.pop()

    def do_switch(self, v, arms, otherwise, frame):
        if isinstance(v, bool):
            v = 1 if v else 0
        if isinstance(v, Char):
            v = ord(v.c)
        if isinstance(v, int):
            for val, bb in arms:
                if _arm_int(val) == v:
                    return bb
            if otherwise is None:
                raise Unsupported("switch without matching arm")
            return otherwise
        if is_sym(v):
            # group arm values by target block
            groups = {}
            order = []
            if z3.is_bool(v):
                iv = None
            for val, bb in arms:
                n = _arm_int(val)
                if bb not in groups:
                    groups[bb] = []
                    order.append(bb)
                groups[bb].append(n)
            conds = []
            allvals = []
            for bb in order:
                if z3.is_bool(v):
                    cs = [(v if n != 0 else z3.Not(v)) for n in groups[bb]]
                else:
                    cs = [v == n for n in groups[bb]]
                conds.append(z3.Or(*cs) if len(cs) > 1 else cs[0])
                allvals += groups[bb]
            targets = list(order)
            if otherwise is not None:
                if z3.is_bool(v):
                    rest = [z3.Not(c) for c in conds]
                    conds.append(z3.And(*rest) if len(rest) > 1 else rest[0])
                else:
                    conds.append(z3.And(*[v != n for n in allvals]))
                targets.append(otherwise)
            i = self.branch(conds, "switch@%s:bb%d" % (frame.name[-50:], frame.bb))
            return targets[i]
        raise Unsupported("switchInt on %r in %s" % (v, frame.name))


_DERIVE_INTR = re.compile(r" as (std::clone::Clone|std::cmp::PartialEq|std::cmp::Eq|std::fmt::Debug|std::hash::Hash|std::cmp::PartialOrd|std::cmp::Ord|serde::Serialize|serde::Deserialize|config::_::_serde::\w+)(<.*>)?>::")


class Frame:
    __slots__ = ("item", "locs", "tysub", "bb", "name")

    def __init__(self, item, locs, tysub):
        self.item = item
        self.locs = locs
        self.tysub = tysub
        self.bb = 0
        self.name = item.name


class CallCtx:
    __slots__ = ("raw", "norm", "frame", "dest_ty", "interp")

    def __init__(self, raw, norm, frame, dest_ty, interp):
        self.raw = raw
        self.norm = norm
        self.frame = frame
        self.dest_ty = dest_ty
        self.interp = interp

    def generics(self):
        """All generic arguments of the call path (flattened, substituted)."""
        return [self.interp.subst(g, self.frame) for g in generic_args_flat(self.raw)]

    def self_ty(self):
        if self.raw.startswith("<"):
            j = match_close(self.raw, 0)
            inner = self.raw[1:j]
            k, st = scan(inner, 0, (" as ",))
            return self.interp.subst(inner[:k] if st else inner, self.frame)
        k = _rfind_top(self.raw, "::")
        return self.interp.subst(self.raw[:k], self.frame)

    def ret_ty(self):
        return self.interp.subst(self.dest_ty, self.frame) if self.dest_ty else None


class PyFn:
    """A python callable standing for a Rust closure (used by drivers)."""

    def __init__(self, fn):
        self.fn = fn


# --------------------------------------------------------------------------- helpers


def as_list(v):
    """View a Vec / array / slice value (or a pointer to one) as (python list, lo, hi)."""
    v = deref_all(v) if not isinstance(v, (VecV, SliceV)) else v
    if isinstance(v, VecV):
        return v.a, 0, len(v.a)
    if isinstance(v, SliceV):
        hi = v.hi if v.hi is not None else len(v.a)
        return v.a, v.lo, hi
    if isinstance(v, Agg) and v.ty == "array":
        return v.f, 0, len(v.f)
    raise Unsupported("not a sequence: %r" % (v,))


def _arm_int(val):
    m = _INT_SUFFIX.match(val)
    if m:
        return int(m.group(1).replace("_", ""))
    return int(val.replace("_", ""))


def _to_z3_bool(v):
    if isinstance(v, bool):
        return z3.BoolVal(v)
    return v


def _z3_div(a, b):
    # Rust integer division truncates toward zero; z3 `/` on Int is floor-like for positive divisor.
    a = a if is_sym(a) else z3.IntVal(a)
    b = b if is_sym(b) else z3.IntVal(b)
    q = z3.If(z3.And(a >= 0, b > 0), a / b, z3.If(z3.And(a < 0, b > 0), -((-a) / b), z3.If(z3.And(a >= 0, b < 0), -(a / (-b)), (-a) / (-b))))
    return z3.simplify(q)


def _z3_rem(a, b):
    a = a if is_sym(a) else z3.IntVal(a)
    b = b if is_sym(b) else z3.IntVal(b)
    return z3.simplify(a - b * _z3_div(a, b))


_ESC = re.compile(r"\\(u\{[0-9a-fA-F]+\}|x[0-9a-fA-F]{2}|.)", re.S)


def _unescape(s):
    if "\\" not in s:
        return s

    def rep(m):
        g = m.group(1)
        if g[0] == "u":
            return chr(int(g[2:-1], 16))
        if g[0] == "x":
            return chr(int(g[1:], 16))
        return {"n": "\n", "t": "\t", "r": "\r", "0": "\0", "\\": "\\", '"': '"', "'": "'", "\n": ""}.get(g, g)

    return _ESC.sub(rep, s)


def _rfind_top(s, sep):
    """Last top-level occurrence of sep."""
    i = 0
    last = -1
    while True:
        j, st = scan(s, i, (sep,))
        if st is None:
            return last
        last = j
        i = j + len(sep)


def strip_generics_tail(ty):
    return ty


def generic_args_flat(raw):
    """Generic arguments appearing in a call path, flattened in order: those of the
    qualified-self type first, then of each path segment."""
    out = []
    s = raw
    if s.startswith("<"):
        j = match_close(s, 0)
        inner = s[1:j]
        k, st = scan(inner, 0, (" as ",))
        selfty = inner[:k] if st else inner
        out += _type_args(selfty)
        s = s[j + 1 :]
    i = 0
    n = len(s)
    while i < n:
        c = s[i]
        if c == "<":
            j = match_close(s, i)
            out += split_top(s[i + 1 : j])
            i = j + 1
            continue
        if c == "{":
            i = match_close(s, i) + 1
            continue
        i += 1
    return [x for x in out if not x.startswith("'") and not (x.startswith("impl ") and ("[" in x or x in ("impl str",) or x.split(" ")[1] in INT_RANGES))]


def _type_args(ty):
    ty = ty.strip()
    k = ty.find("<")
    if k < 0 or not ty.endswith(">"):
        return []
    return [x for x in split_top(ty[k + 1 : -1]) if not x.startswith("'")]
