"""Models of String / str / Vec / slice / iterator / map / set operations."""
import re
import z3

from .values import *
from .interp import as_list, PyFn, INT_RANGES
from .index import short_type
from .intr_core import IterV, get_iter, struct_eq, display, default_for, SymStr


def key_of(I, k):
    """Python dict key for a Rust map key value."""
    k = deref_all(k) if isinstance(k, (Ptr, ValPtr, MapSlot, BoxV)) else k
    if isinstance(k, (str, int, bool)):
        return k
    if isinstance(k, Enum):
        if is_sym(k.d):
            raise Unsupported("symbolic enum as map key")
        return (k.ty, k.d) + tuple(key_of(I, x) for x in k.f)
    if isinstance(k, Agg):
        return (k.ty,) + tuple(key_of(I, x) for x in k.f)
    if isinstance(k, (VecV, SliceV)):
        a, lo, hi = as_list(k)
        return ("vec",) + tuple(key_of(I, x) for x in a[lo:hi])
    if isinstance(k, Char):
        return k
    if is_sym(k):
        raise Unsupported("symbolic map key")
    raise Unsupported("map key %r" % (k,))


def register(I):
    intr = I.intrinsic
    pat = I.pattern

    # ================================================================== str / String
    @intr("std::string::String::new")
    def _s_new(I, a, cc):
        return ""

    @intr("std::string::String::with_capacity")
    def _s_wc(I, a, cc):
        return ""

    @intr("std::string::String::as_str", "std::string::String::as_mut_str", "std::str::<impl str>::as_ref")
    def _s_as_str(I, a, cc):
        return deref_all(a[0])

    @intr("std::string::String::push_str")
    def _s_push_str(I, a, cc):
        a[0].set(a[0].get() + a[1])
        return UNIT

    @intr("std::string::String::push")
    def _s_push(I, a, cc):
        a[0].set(a[0].get() + a[1].c)
        return UNIT

    @intr("std::string::String::len", "std::str::<impl str>::len")
    def _s_len(I, a, cc):
        s = deref_all(a[0])
        if isinstance(s, SymStr):
            raise Unsupported("len of symbolic string")
        if isinstance(s, Ser):
            # the byte length of a serialised text is not modelled: an arbitrary small non-negative number
            n = I.fresh("textlen")
            I.assume(z3.And(n >= 0, n <= 100000))
            return n
        return len(s.encode("utf-8"))

    @intr("std::string::String::is_empty", "std::str::<impl str>::is_empty")
    def _s_is_empty(I, a, cc):
        return len(deref_all(a[0])) == 0

    @intr("std::str::<impl str>::to_string", "std::str::<impl str>::to_owned", "std::string::String::clone",
          "std::str::<impl str>::into_string", "std::string::String::into_boxed_str")
    def _s_ident(I, a, cc):
        return deref_all(a[0])

    @intr("std::str::<impl str>::starts_with")
    def _s_sw(I, a, cc):
        p = deref_all(a[1])
        return deref_all(a[0]).startswith(p.c if isinstance(p, Char) else p)

    @intr("std::str::<impl str>::ends_with")
    def _s_ew(I, a, cc):
        p = deref_all(a[1])
        return deref_all(a[0]).endswith(p.c if isinstance(p, Char) else p)

    @intr("std::str::<impl str>::contains")
    def _s_contains(I, a, cc):
        p = deref_all(a[1])
        return (p.c if isinstance(p, Char) else p) in deref_all(a[0])

    @intr("std::str::<impl str>::trim")
    def _s_trim(I, a, cc):
        return deref_all(a[0]).strip()

    @intr("std::str::<impl str>::trim_start")
    def _s_triml(I, a, cc):
        return deref_all(a[0]).lstrip()

    @intr("std::str::<impl str>::trim_end")
    def _s_trimr(I, a, cc):
        return deref_all(a[0]).rstrip()

    @intr("std::str::<impl str>::to_lowercase", "std::str::<impl str>::to_ascii_lowercase")
    def _s_lower(I, a, cc):
        return deref_all(a[0]).lower()

    @intr("std::str::<impl str>::to_uppercase", "std::str::<impl str>::to_ascii_uppercase")
    def _s_upper(I, a, cc):
        return deref_all(a[0]).upper()

    @intr("std::str::<impl str>::replace")
    def _s_replace(I, a, cc):
        return deref_all(a[0]).replace(deref_all(a[1]), deref_all(a[2]))

    @intr("std::str::<impl str>::as_bytes", "std::string::String::as_bytes", "std::string::String::into_bytes")
    def _s_bytes(I, a, cc):
        return VecV(list(deref_all(a[0]).encode("utf-8")))

    @intr("std::str::<impl str>::split")
    def _s_split(I, a, cc):
        p = deref_all(a[1])
        return IterV(deref_all(a[0]).split(p.c if isinstance(p, Char) else p))

    @intr("std::str::<impl str>::chars")
    def _s_chars(I, a, cc):
        return IterV([Char(c) for c in deref_all(a[0])])

    @intr("std::str::<impl str>::parse")
    def _s_parse(I, a, cc):
        t = short_type(cc.generics()[0])
        s = deref_all(a[0])
        if t in INT_RANGES:
            if re.fullmatch(r"[+-]?\d+", s):
                v = int(s)
                lo, hi = INT_RANGES[t]
                if lo <= v <= hi:
                    return ok(v)
            return err(Opaque("ParseIntError"))
        if t in ("f64", "f32"):
            try:
                return ok(float(s))
            except ValueError:
                return err(Opaque("ParseFloatError"))
        if t == "bool":
            if s in ("true", "false"):
                return ok(s == "true")
            return err(Opaque("ParseBoolError"))
        return I.call_raw("<%s as std::str::FromStr>::from_str" % cc.generics()[0], [s], cc.frame)

    @pat(r"^<std::string::String as std::ops::Add<&str>>::add$")
    def _s_add(I, a, cc):
        return a[0] + deref_all(a[1])

    @pat(r"^<std::string::String as std::ops::AddAssign<&str>>::add_assign$")
    def _s_addassign(I, a, cc):
        a[0].set(a[0].get() + deref_all(a[1]))
        return UNIT

    @pat(r"^<str as std::ops::Index>::index$", r"^<std::string::String as std::ops::Index>::index$",
         r"^std::str::traits::<impl std::ops::Index<.*> for str>::index$")
    def _s_index(I, a, cc):
        s = deref_all(a[0]).encode("utf-8")
        r = a[1]
        lo, hi = _range_bounds(r, len(s))
        return s[lo:hi].decode("utf-8")

    @pat(r"^<std::string::String as std::fmt::Write>::write_str$")
    def _s_write_str(I, a, cc):
        a[0].set(a[0].get() + a[1])
        return ok(UNIT)

    @pat(r"^<std::string::String as std::iter::FromIterator>::from_iter$")
    def _s_from_iter(I, a, cc):
        it = get_iter(a[0])
        return "".join(x.c if isinstance(x, Char) else deref_all(x) for x in it.rest())

    @pat(r"^<std::string::String as std::iter::Extend>::extend$")
    def _s_extend(I, a, cc):
        it = get_iter(a[1])
        a[0].set(a[0].get() + "".join(x.c if isinstance(x, Char) else deref_all(x) for x in it.rest()))
        return UNIT

    @intr("std::slice::<impl [T]>::join", "std::slice::<impl [S]>::join", "std::slice::<impl [V]>::join")
    def _join(I, a, cc):
        arr, lo, hi = as_list(a[0])
        return deref_all(a[1]).join(deref_all(x) for x in arr[lo:hi])

    @intr("std::slice::<impl [T]>::concat", "std::slice::<impl [S]>::concat", "std::slice::<impl [V]>::concat")
    def _concat(I, a, cc):
        arr, lo, hi = as_list(a[0])
        return "".join(deref_all(x) for x in arr[lo:hi])

    @intr("std::string::String::from_utf8", "std::str::from_utf8")
    def _from_utf8(I, a, cc):
        arr, lo, hi = as_list(a[0])
        return ok(bytes(arr[lo:hi]).decode("utf-8"))

    @intr("std::string::String::from_utf8_lossy")
    def _from_utf8l(I, a, cc):
        arr, lo, hi = as_list(a[0])
        return bytes(arr[lo:hi]).decode("utf-8", "replace")

    # ================================================================== Vec / slice
    @intr("std::vec::Vec::new", "std::vec::Vec::with_capacity")
    def _v_new(I, a, cc):
        return VecV([])

    @intr("std::vec::Vec::push")
    def _v_push(I, a, cc):
        deref(a[0]).a.append(a[1])
        return UNIT

    @intr("std::vec::Vec::pop")
    def _v_pop(I, a, cc):
        v = deref(a[0]).a
        return some(v.pop()) if v else none()

    @intr("std::vec::Vec::insert")
    def _v_insert(I, a, cc):
        deref(a[0]).a.insert(a[1], a[2])
        return UNIT

    @intr("std::vec::Vec::remove")
    def _v_remove(I, a, cc):
        v = deref(a[0]).a
        if a[1] >= len(v):
            raise RustPanic("removal index out of bounds")
        return v.pop(a[1])

    @intr("std::vec::Vec::clear")
    def _v_clear(I, a, cc):
        del deref(a[0]).a[:]
        return UNIT

    @intr("std::vec::Vec::truncate")
    def _v_trunc(I, a, cc):
        del deref(a[0]).a[a[1] :]
        return UNIT

    @intr("std::vec::Vec::len", "std::slice::<impl [T]>::len")
    def _v_len(I, a, cc):
        arr, lo, hi = as_list(a[0])
        return hi - lo

    @intr("std::vec::Vec::is_empty", "std::slice::<impl [T]>::is_empty")
    def _v_is_empty(I, a, cc):
        arr, lo, hi = as_list(a[0])
        return hi == lo

    @intr("std::vec::Vec::as_slice", "std::vec::Vec::as_mut_slice", "std::vec::Vec::as_ref")
    def _v_as_slice(I, a, cc):
        return a[0]

    @intr("std::vec::Vec::append")
    def _v_append(I, a, cc):
        dst = deref(a[0]).a
        src = deref(a[1]).a
        dst.extend(src)
        del src[:]
        return UNIT

    @intr("std::vec::Vec::extend_from_slice")
    def _v_efs(I, a, cc):
        arr, lo, hi = as_list(a[1])
        deref(a[0]).a.extend(clone_value(x) for x in arr[lo:hi])
        return UNIT

    @pat(r"^<std::vec::Vec as std::iter::Extend>::extend$")
    def _v_extend(I, a, cc):
        it = iter_of(I, a[1], cc)
        dst = deref(a[0]).a
        for x in it.rest():
            if "Extend<&" in cc.raw:
                x = clone_value(deref(x))
            dst.append(x)
        return UNIT

    @intr("std::vec::Vec::retain")
    def _v_retain(I, a, cc):
        v = deref(a[0])
        keep = []
        for i in range(len(v.a)):
            if I.truth(I.call_value(a[1], [Ptr(v.a, i)], cc.frame), "retain"):
                keep.append(v.a[i])
        v.a[:] = keep
        return UNIT

    @intr("std::vec::Vec::drain")
    def _v_drain(I, a, cc):
        v = deref(a[0])
        lo, hi = _range_bounds(a[1], len(v.a))
        out = v.a[lo:hi]
        del v.a[lo:hi]
        return IterV(out)

    @intr("std::vec::Vec::contains", "std::slice::<impl [T]>::contains")
    def _v_contains(I, a, cc):
        arr, lo, hi = as_list(a[0])
        for x in arr[lo:hi]:
            r = struct_eq(I, x, a[1])
            if I.truth(r, "contains"):
                return True
        return False

    @intr("std::slice::<impl [T]>::first", "std::slice::<impl [T]>::first_mut")
    def _first(I, a, cc):
        arr, lo, hi = as_list(a[0])
        return some(Ptr(arr, lo)) if hi > lo else none()

    @intr("std::slice::<impl [T]>::last", "std::slice::<impl [T]>::last_mut")
    def _last(I, a, cc):
        arr, lo, hi = as_list(a[0])
        return some(Ptr(arr, hi - 1)) if hi > lo else none()

    @intr("std::slice::<impl [T]>::get", "std::slice::<impl [T]>::get_mut")
    def _get(I, a, cc):
        arr, lo, hi = as_list(a[0])
        i = a[1]
        if isinstance(i, int):
            return some(Ptr(arr, lo + i)) if 0 <= i < hi - lo else none()
        raise Unsupported("slice get with range")

    @intr("std::slice::<impl [T]>::iter", "std::slice::<impl [T]>::iter_mut")
    def _iter(I, a, cc):
        arr, lo, hi = as_list(a[0])
        return IterV([Ptr(arr, i) for i in range(lo, hi)])

    @intr("std::slice::<impl [T]>::reverse")
    def _reverse(I, a, cc):
        arr, lo, hi = as_list(a[0])
        arr[lo:hi] = arr[lo:hi][::-1]
        return UNIT

    @intr("std::slice::<impl [T]>::sort_by", "std::slice::<impl [T]>::sort_unstable_by")
    def _sort_by(I, a, cc):
        arr, lo, hi = as_list(a[0])
        items = arr[lo:hi]
        # insertion sort (stable) calling the closure; forks if the comparison is symbolic
        out = []
        for x in items:
            pos = len(out)
            while pos > 0:
                o = I.call_value(a[1], [Ptr([out[pos - 1]], 0), Ptr([x], 0)], cc.frame)
                if o.d == 1:  # out[pos-1] > x
                    pos -= 1
                else:
                    break
            out.insert(pos, x)
        arr[lo:hi] = out
        return UNIT

    @intr("std::slice::<impl [T]>::sort_by_key", "std::slice::<impl [T]>::sort_unstable_by_key", "std::slice::<impl [T]>::sort_by_cached_key")
    def _sort_by_key(I, a, cc):
        arr, lo, hi = as_list(a[0])
        items = arr[lo:hi]
        keyed = [(I.call_value(a[1], [Ptr([x], 0)], cc.frame), x) for x in items]
        out = []
        for k, x in keyed:
            pos = len(out)
            while pos > 0:
                pk = out[pos - 1][0]
                if is_sym(pk) or is_sym(k):
                    gt = I.truth(pk > k, "sort_by_key")
                else:
                    gt = pk > k
                if gt:
                    pos -= 1
                else:
                    break
            out.insert(pos, (k, x))
        arr[lo:hi] = [x for _, x in out]
        return UNIT

    @intr("std::slice::<impl [T]>::sort", "std::slice::<impl [T]>::sort_unstable")
    def _sort(I, a, cc):
        arr, lo, hi = as_list(a[0])
        items = arr[lo:hi]
        items.sort(key=lambda x: x.encode("utf-8") if isinstance(x, str) else x)
        arr[lo:hi] = items
        return UNIT

    @pat(r"^<std::vec::Vec as std::ops::Index>::index$", r"^<std::vec::Vec as std::ops::IndexMut>::index_mut$",
         r"^<\[T\] as std::ops::Index>::index$", r"^std::slice::index::<impl std::ops::Index<.*> for \[T\]>::index$",
         r"^std::slice::index::<impl std::ops::IndexMut<.*> for \[T\]>::index_mut$")
    def _v_index(I, a, cc):
        arr, lo, hi = as_list(a[0])
        i = a[1]
        if isinstance(i, int):
            if i < 0 or lo + i >= hi:
                raise RustPanic("index out of bounds: the len is %d but the index is %d" % (hi - lo, i))
            return Ptr(arr, lo + i)
        l2, h2 = _range_bounds(i, hi - lo)
        return SliceV(arr, lo + l2, lo + h2)

    @pat(r"^<std::vec::Vec as std::iter::FromIterator>::from_iter$")
    def _v_from_iter(I, a, cc):
        return VecV(iter_of(I, a[0], cc).rest())

    @intr("std::vec::from_elem")
    def _from_elem(I, a, cc):
        return VecV([clone_value(a[0]) for _ in range(a[1])])

    @intr("std::slice::<impl [T]>::into_vec")
    def _into_vec(I, a, cc):
        v = a[0]
        if isinstance(v, BoxV):
            v = v.c[0]
        arr, lo, hi = as_list(v)
        return VecV(arr[lo:hi])

    @intr("std::vec::Vec::into_boxed_slice")
    def _ibs(I, a, cc):
        return BoxV(a[0], "box")

    @intr("std::vec::Vec::dedup")
    def _dedup(I, a, cc):
        v = deref(a[0]).a
        out = []
        for x in v:
            if not out or struct_eq(I, out[-1], x) is not True:
                out.append(x)
        v[:] = out
        return UNIT

    # ================================================================== iterators
    def iter_of(I, v, cc):
        """IntoIterator::into_iter on any modelled collection value."""
        if isinstance(v, IterV):
            return v
        by_ref = isinstance(v, (Ptr, ValPtr, MapSlot))
        x = deref(v) if by_ref else v
        if isinstance(x, IterV):
            return x
        if isinstance(x, BoxV) and isinstance(x.c[0], (VecV,)):
            x = x.c[0]
        if isinstance(x, VecV):
            if by_ref:
                return IterV([Ptr(x.a, i) for i in range(len(x.a))])
            return IterV(list(x.a))
        if isinstance(x, SliceV):
            arr, lo, hi = as_list(x)
            return IterV([Ptr(arr, i) for i in range(lo, hi)])
        if isinstance(x, MapV):
            return map_iter(I, x, by_ref)
        if isinstance(x, Enum) and x.ty == "Option":
            return IterV([x.f[0]] if x.d == 1 else [])
        if isinstance(x, Agg) and x.ty in ("Range", "RangeInclusive"):
            lo, hi = x.f[0], x.f[1]
            if is_sym(lo) or is_sym(hi):
                raise Unsupported("symbolic range iteration")
            return IterV(range(lo, hi + (1 if x.ty == "RangeInclusive" else 0)))
        if isinstance(x, Agg) and x.ty:
            it = None
            if by_ref:
                it = I.p.find_impl("&" + x.ty, "IntoIterator", "into_iter")
            if it is None and not by_ref:
                it = I.p.find_impl(x.ty, "IntoIterator", "into_iter")
            if it is not None:
                return get_iter(I.run_item(it, [v], None))
        raise Unsupported("into_iter of %r" % (x,))

    I.iter_of = iter_of

    def map_iter(I, m, by_ref):
        out = []
        for k in m.keys():
            kb = m.d[k]
            if m.ty in ("HashSet", "BTreeSet"):
                out.append(ValPtr(kb.k) if by_ref else kb.k)
            elif by_ref:
                out.append(Agg("tuple", [_keyref(kb.k), Ptr(_slot(kb), 0)]))
            else:
                out.append(Agg("tuple", [kb.k, kb.v]))
        return IterV(out)

    def _slot(kb):
        return _KBView(kb)

    @pat(r"^<.* as std::iter::IntoIterator>::into_iter$")
    def _into_iter(I, a, cc):
        return iter_of(I, a[0], cc)

    @pat(r"^<.* as std::iter::Iterator>::next$", r"^<.* as std::iter::DoubleEndedIterator>::next_back$")
    def _next(I, a, cc):
        it = get_iter(a[0])
        if cc.norm.endswith("next_back"):
            if it.pos < len(it.items):
                return some(it.items.pop())
            return none()
        if it.pos < len(it.items):
            v = it.items[it.pos]
            it.pos += 1
            return some(v)
        return none()

    def adapter(name):
        return r"^<.* as std::iter::Iterator>::%s$" % name

    @pat(adapter("filter"))
    def _filter(I, a, cc):
        it = get_iter(a[0])
        out = []
        for x in it.rest():
            if I.truth(I.call_value(a[1], [Ptr([x], 0)], cc.frame), "filter"):
                out.append(x)
        return IterV(out)

    @pat(adapter("map"))
    def _map(I, a, cc):
        it = get_iter(a[0])
        return IterV([I.call_value(a[1], [x], cc.frame) for x in it.rest()])

    @pat(adapter("filter_map"))
    def _filter_map(I, a, cc):
        it = get_iter(a[0])
        out = []
        for x in it.rest():
            r = I.call_value(a[1], [x], cc.frame)
            if r.d == 1:
                out.append(r.f[0])
        return IterV(out)

    @pat(adapter("flat_map"))
    def _flat_map(I, a, cc):
        it = get_iter(a[0])
        out = []
        for x in it.rest():
            out += iter_of(I, I.call_value(a[1], [x], cc.frame), cc).rest()
        return IterV(out)

    @pat(adapter("flatten"))
    def _flatten(I, a, cc):
        it = get_iter(a[0])
        out = []
        for x in it.rest():
            out += iter_of(I, x, cc).rest()
        return IterV(out)

    @pat(adapter("cloned"), adapter("copied"))
    def _cloned(I, a, cc):
        it = get_iter(a[0])
        return IterV([clone_value(deref(x)) for x in it.rest()])

    @pat(adapter("rev"))
    def _rev(I, a, cc):
        return IterV(get_iter(a[0]).rest()[::-1])

    @pat(adapter("enumerate"))
    def _enumerate(I, a, cc):
        return IterV([Agg("tuple", [i, x]) for i, x in enumerate(get_iter(a[0]).rest())])

    @pat(adapter("skip"))
    def _skip(I, a, cc):
        n = a[1]
        if is_sym(n):
            raise Unsupported("symbolic skip")
        return IterV(get_iter(a[0]).rest()[n:])

    @pat(adapter("take"))
    def _take(I, a, cc):
        n = a[1]
        if is_sym(n):
            raise Unsupported("symbolic take")
        return IterV(get_iter(a[0]).rest()[:n])

    @pat(adapter("chain"))
    def _chain(I, a, cc):
        return IterV(get_iter(a[0]).rest() + iter_of(I, a[1], cc).rest())

    @pat(adapter("zip"))
    def _zip(I, a, cc):
        return IterV([Agg("tuple", [x, y]) for x, y in zip(get_iter(a[0]).rest(), iter_of(I, a[1], cc).rest())])

    @pat(adapter("peekable"), adapter("fuse"), adapter("by_ref"), adapter("into_iter"))
    def _peekable(I, a, cc):
        return a[0] if cc.norm.endswith("by_ref") else get_iter(a[0])

    @pat(adapter("take_while"))
    def _take_while(I, a, cc):
        out = []
        for x in get_iter(a[0]).rest():
            if not I.truth(I.call_value(a[1], [Ptr([x], 0)], cc.frame), "take_while"):
                break
            out.append(x)
        return IterV(out)

    @pat(adapter("skip_while"))
    def _skip_while(I, a, cc):
        items = get_iter(a[0]).rest()
        i = 0
        while i < len(items) and I.truth(I.call_value(a[1], [Ptr([items[i]], 0)], cc.frame), "skip_while"):
            i += 1
        return IterV(items[i:])

    @pat(adapter("count"))
    def _count(I, a, cc):
        return len(get_iter(a[0]).rest())

    @pat(adapter("last"))
    def _it_last(I, a, cc):
        r = get_iter(a[0]).rest()
        return some(r[-1]) if r else none()

    @pat(adapter("nth"))
    def _nth(I, a, cc):
        it = get_iter(a[0])
        r = it.rest()
        if a[1] < len(r):
            it.pos += a[1] + 1
            return some(r[a[1]])
        it.pos = len(it.items)
        return none()

    @pat(adapter("all"))
    def _all(I, a, cc):
        it = get_iter(a[0])
        while it.pos < len(it.items):
            x = it.items[it.pos]
            it.pos += 1
            if not I.truth(I.call_value(a[1], [x], cc.frame), "all"):
                return False
        return True

    @pat(adapter("any"))
    def _any(I, a, cc):
        it = get_iter(a[0])
        while it.pos < len(it.items):
            x = it.items[it.pos]
            it.pos += 1
            if I.truth(I.call_value(a[1], [x], cc.frame), "any"):
                return True
        return False

    @pat(adapter("find"))
    def _find(I, a, cc):
        it = get_iter(a[0])
        while it.pos < len(it.items):
            x = it.items[it.pos]
            it.pos += 1
            if I.truth(I.call_value(a[1], [Ptr([x], 0)], cc.frame), "find"):
                return some(x)
        return none()

    @pat(adapter("find_map"))
    def _find_map(I, a, cc):
        it = get_iter(a[0])
        while it.pos < len(it.items):
            x = it.items[it.pos]
            it.pos += 1
            r = I.call_value(a[1], [x], cc.frame)
            if r.d == 1:
                return r
        return none()

    @pat(adapter("position"))
    def _position(I, a, cc):
        it = get_iter(a[0])
        i = 0
        while it.pos < len(it.items):
            x = it.items[it.pos]
            it.pos += 1
            if I.truth(I.call_value(a[1], [x], cc.frame), "position"):
                return some(i)
            i += 1
        return none()

    @pat(adapter("for_each"))
    def _for_each(I, a, cc):
        for x in get_iter(a[0]).rest():
            I.call_value(a[1], [x], cc.frame)
        return UNIT

    @pat(adapter("fold"))
    def _fold(I, a, cc):
        acc = a[1]
        for x in get_iter(a[0]).rest():
            acc = I.call_value(a[2], [acc, x], cc.frame)
        return acc

    @pat(adapter("sum"))
    def _sum(I, a, cc):
        acc = 0
        for x in get_iter(a[0]).rest():
            acc = acc + deref_all(x)
        return acc

    @pat(adapter("max"), adapter("min"))
    def _it_max(I, a, cc):
        r = get_iter(a[0]).rest()
        if not r:
            return none()
        best = r[0]
        for x in r[1:]:
            if (deref_all(x) >= deref_all(best)) == cc.norm.endswith("max"):
                best = x
        return some(best)

    @pat(adapter("collect"))
    def _collect(I, a, cc):
        it = get_iter(a[0])
        g = cc.generics()
        target = g[-1] if g else (cc.ret_ty() or "")
        if target.strip() in ("_", "") and cc.ret_ty():
            target = cc.ret_ty()
        return collect_into(I, it.rest(), target, cc)

    def collect_into(I, items, target, cc):
        st = short_type(target)
        if st.startswith("Vec<") or st == "Vec":
            return VecV(items)
        if st.startswith("Box<["):
            return BoxV(VecV(items), "box")
        if st == "String":
            return "".join(x.c if isinstance(x, Char) else deref_all(x) for x in items)
        if st.split("<")[0] in ("HashMap", "BTreeMap", "Map", "IndexMap"):
            m = MapV(st.split("<")[0] != "HashMap", st.split("<")[0])
            for t in items:
                m.d[key_of(I, t.f[0])] = KeyBox(t.f[0], t.f[1])
            return m
        if st.split("<")[0] in ("HashSet", "BTreeSet"):
            m = MapV(st.startswith("BTreeSet"), st.split("<")[0])
            for x in items:
                m.d[key_of(I, x)] = KeyBox(x, True)
            return m
        if st.startswith("Result<"):
            inner = target[target.index("<") + 1 : -1]
            from .mirparse import split_top
            okty = split_top(inner)[0]
            out = []
            for r in items:
                if r.d == 1:
                    return r
                out.append(r.f[0])
            return ok(collect_into(I, out, okty, cc))
        if st.startswith("Option<"):
            inner = target[target.index("<") + 1 : -1]
            out = []
            for r in items:
                if r.d == 0:
                    return r
                out.append(r.f[0])
            return some(collect_into(I, out, inner, cc))
        # repo type with FromIterator
        it = I.p.find_impl(target, "FromIterator", "from_iter")
        if it is not None:
            return I.run_item(it, [IterV(items)], None)
        raise Unsupported("collect into " + target)

    I.collect_into = collect_into

    @intr("std::iter::empty")
    def _empty(I, a, cc):
        return IterV([])

    @intr("std::iter::once")
    def _once(I, a, cc):
        return IterV([a[0]])

    @intr("std::iter::Iterator::size_hint", "std::iter::ExactSizeIterator::len")
    def _size_hint(I, a, cc):
        n = len(get_iter(a[0]).rest())
        if cc.norm.endswith("len"):
            return n
        return Agg("tuple", [n, some(n)])

    @pat(r"^<.* as std::iter::ExactSizeIterator>::len$")
    def _esi_len(I, a, cc):
        return len(get_iter(a[0]).rest())

    # ================================================================== maps & sets
    MAPS = ("std::collections::HashMap", "std::collections::BTreeMap", "serde_json::Map", "std::collections::HashSet",
            "std::collections::BTreeSet", "moka::sync::Cache")

    def mk(names):
        out = []
        for m in MAPS:
            for n in names:
                out.append(m + "::" + n)
        return out

    @intr(*mk(["new", "with_capacity", "default"]))
    def _m_new(I, a, cc):
        t = cc.norm.split("::")[-2]
        return MapV(t in ("BTreeMap", "Map", "BTreeSet"), t)

    @intr(*mk(["insert"]))
    def _m_insert(I, a, cc):
        m = deref(a[0])
        if m.ty in ("HashSet", "BTreeSet"):
            k = key_of(I, a[1])
            if k in m.d:
                return False
            m.d[k] = KeyBox(a[1], True)
            return True
        k = key_of(I, a[1])
        old = m.d.get(k)
        if old is not None:
            ov = old.v
            old.v = a[2]
            if m.ty == "Cache":
                return UNIT
            return some(ov)
        m.d[k] = KeyBox(a[1], a[2])
        if m.ty == "Cache":
            # capacity pressure: moka's admission/eviction policy is over-approximated -- when the cache holds more
            # entries than its capacity, any one entry (the new one included) may be the victim
            cap = getattr(I.world, "cache_capacity", None) if I.world is not None else None
            if cap is not None and len(m.d) > cap:
                keys = list(m.d.keys())
                victim = keys[I.path.choose(len(keys), "moka-victim")]
                del m.d[victim]
                if hasattr(I.world, "evictions"):
                    I.world.evictions.append(victim)
            return UNIT
        return none()

    @intr(*mk(["get", "get_mut"]))
    def _m_get(I, a, cc):
        m = deref(a[0])
        kb = m.d.get(key_of(I, a[1]))
        if kb is None:
            return none()
        if m.ty == "Cache":
            return some(clone_value(kb.v))
        if m.ty in ("HashSet", "BTreeSet"):
            return some(ValPtr(kb.k))
        return some(Ptr(_KBView(kb), 0))

    @intr(*mk(["contains_key", "contains"]))
    def _m_contains(I, a, cc):
        return key_of(I, a[1]) in deref(a[0]).d

    @intr(*mk(["remove", "shift_remove", "swap_remove", "invalidate"]))
    def _m_remove(I, a, cc):
        m = deref(a[0])
        kb = m.d.pop(key_of(I, a[1]), None)
        if m.ty in ("HashSet", "BTreeSet"):
            return kb is not None
        if kb is None:
            return none()
        return some(kb.v)

    @intr(*mk(["len", "entry_count"]))
    def _m_len(I, a, cc):
        return len(deref(a[0]).d)

    @intr(*mk(["is_empty"]))
    def _m_is_empty(I, a, cc):
        return len(deref(a[0]).d) == 0

    @intr(*mk(["retain"]))
    def _m_retain(I, a, cc):
        # maps: the closure gets (&K, &mut V); sets: (&K)
        m = deref(a[0])
        for k in list(m.keys()):
            kb = m.d[k]
            if m.ty in ("HashSet", "BTreeSet"):
                keep = I.call_value(a[1], [ValPtr(kb.k)], cc.frame)
            else:
                keep = I.call_value(a[1], [_keyref(kb.k), Ptr(_KBView(kb), 0)], cc.frame)
            if not I.truth(keep, "retain"):
                del m.d[k]
        return UNIT

    @intr(*mk(["clear"]))
    def _m_clear(I, a, cc):
        deref(a[0]).d.clear()
        return UNIT

    @intr(*mk(["iter", "iter_mut"]))
    def _m_iter(I, a, cc):
        m = deref(a[0])
        if m.ty == "Cache":
            return IterV([Agg("tuple", [BoxV(m.d[k].k, "arc"), clone_value(m.d[k].v)]) for k in m.keys()])
        return map_iter(I, m, True)

    @intr(*mk(["into_iter"]))
    def _m_into_iter(I, a, cc):
        return map_iter(I, a[0], False)

    @intr(*mk(["keys"]))
    def _m_keys(I, a, cc):
        m = deref(a[0])
        return IterV([_keyref(m.d[k].k) for k in m.keys()])

    @intr(*mk(["values", "values_mut"]))
    def _m_values(I, a, cc):
        m = deref(a[0])
        return IterV([Ptr(_KBView(m.d[k]), 0) for k in m.keys()])

    @intr(*mk(["into_values"]))
    def _m_into_values(I, a, cc):
        m = a[0]
        return IterV([m.d[k].v for k in m.keys()])

    @intr(*mk(["into_keys"]))
    def _m_into_keys(I, a, cc):
        m = a[0]
        return IterV([m.d[k].k for k in m.keys()])

    @intr(*mk(["extend"]))
    def _m_extend_inh(I, a, cc):
        return _m_extend(I, a, cc)

    @pat(r"^<(std::collections::(HashMap|BTreeMap|HashSet|BTreeSet)|serde_json::Map) as std::iter::Extend>::extend$")
    def _m_extend(I, a, cc):
        m = deref(a[0])
        src = a[1]
        it = iter_of(I, src, cc)
        for t in it.rest():
            if m.ty in ("HashSet", "BTreeSet"):
                v = deref(t) if isinstance(t, (Ptr, ValPtr)) else t
                m.d[key_of(I, v)] = KeyBox(clone_value(v), True)
                continue
            k, v = t.f[0], t.f[1]
            k = deref_all(k) if isinstance(k, (Ptr, ValPtr)) else k
            if isinstance(v, (Ptr, ValPtr, MapSlot)):
                v = clone_value(v.get())
            kk = key_of(I, k)
            if kk in m.d:
                m.d[kk].v = v
            else:
                m.d[kk] = KeyBox(k, v)
        return UNIT

    @intr(*mk(["append"]))
    def _m_append(I, a, cc):
        m = deref(a[0])
        o = deref(a[1])
        for k in o.keys():
            m.d[k] = o.d[k]
        o.d.clear()
        return UNIT

    @pat(r"^<(std::collections::(HashMap|BTreeMap|HashSet|BTreeSet)|serde_json::Map) as std::iter::FromIterator>::from_iter$")
    def _m_from_iter(I, a, cc):
        t = cc.self_ty()
        return collect_into(I, iter_of(I, a[0], cc).rest(), t, cc)

    @pat(r"^<(std::collections::(HashMap|BTreeMap)|serde_json::Map) as std::ops::Index>::index$")
    def _m_index(I, a, cc):
        m = deref(a[0])
        kb = m.d.get(key_of(I, a[1]))
        if kb is None:
            raise RustPanic("key not found in map")
        return Ptr(_KBView(kb), 0)

    # entry API
    @intr(*mk(["entry"]))
    def _m_entry(I, a, cc):
        m = deref(a[0])
        return Opaque("entry", (m, a[1]))

    ENTRY = ("std::collections::hash_map::Entry", "std::collections::btree_map::Entry", "serde_json::map::Entry")

    def ek(names):
        return [e + "::" + n for e in ENTRY for n in names]

    @intr(*ek(["and_modify"]))
    def _e_and_modify(I, a, cc):
        m, k = a[0].v
        kb = m.d.get(key_of(I, k))
        if kb is not None:
            I.call_value(a[1], [Ptr(_KBView(kb), 0)], cc.frame)
        return a[0]

    @intr(*ek(["or_insert"]))
    def _e_or_insert(I, a, cc):
        m, k = a[0].v
        kk = key_of(I, k)
        kb = m.d.get(kk)
        if kb is None:
            kb = KeyBox(k, a[1])
            m.d[kk] = kb
        return Ptr(_KBView(kb), 0)

    @intr(*ek(["or_insert_with"]))
    def _e_or_insert_with(I, a, cc):
        m, k = a[0].v
        kk = key_of(I, k)
        kb = m.d.get(kk)
        if kb is None:
            kb = KeyBox(k, I.call_value(a[1], [], cc.frame))
            m.d[kk] = kb
        return Ptr(_KBView(kb), 0)

    @intr(*ek(["or_default"]))
    def _e_or_default(I, a, cc):
        m, k = a[0].v
        kk = key_of(I, k)
        kb = m.d.get(kk)
        if kb is None:
            g = cc.generics()
            kb = KeyBox(k, default_for(I, g[-1], cc.frame))
            m.d[kk] = kb
        return Ptr(_KBView(kb), 0)

    # sets
    @intr("std::collections::HashSet::intersection", "std::collections::BTreeSet::intersection")
    def _set_inter(I, a, cc):
        x, y = deref(a[0]), deref(a[1])
        return IterV([ValPtr(x.d[k].k) for k in x.keys() if k in y.d])

    @intr("std::collections::HashSet::union", "std::collections::BTreeSet::union")
    def _set_union(I, a, cc):
        x, y = deref(a[0]), deref(a[1])
        out = [ValPtr(x.d[k].k) for k in x.keys()]
        out += [ValPtr(y.d[k].k) for k in y.keys() if k not in x.d]
        return IterV(out)

    @intr("std::collections::HashSet::difference", "std::collections::BTreeSet::difference")
    def _set_diff(I, a, cc):
        x, y = deref(a[0]), deref(a[1])
        return IterV([ValPtr(x.d[k].k) for k in x.keys() if k not in y.d])

    # moka extras
    @intr("moka::sync::Cache::run_pending_tasks")
    def _moka_rpt(I, a, cc):
        return UNIT

    # ranges
    @pat(r"^<std::ops::Range(Inclusive)? as std::iter::Iterator>::next$")
    def _range_next(I, a, cc):
        r = a[0].get()
        lo, hi = r.f[0], r.f[1]
        if lo < hi:
            r.f[0] = lo + 1
            return some(lo)
        return none()

    @intr("std::ops::RangeInclusive::new")
    def _ri_new(I, a, cc):
        return Agg("RangeInclusive", [a[0], a[1]])

    # usize helpers
    @intr("std::num::<impl usize>::div_ceil", "std::num::<impl u64>::div_ceil", "std::num::<impl u32>::div_ceil")
    def _div_ceil(I, a, cc):
        x, y = a
        if is_sym(x) or is_sym(y):
            from .interp import _z3_div
            q = _z3_div(x, y)
            return z3.simplify(z3.If(q * y == x, q, q + 1))
        if y == 0:
            raise RustPanic("attempt to divide by zero")
        return -(-x // y)

    @intr("std::f64::<impl f64>::fract", "std::f64::<impl f64>::abs", "std::f64::<impl f64>::trunc", "std::f64::<impl f64>::floor",
          "std::f64::<impl f64>::is_finite", "std::f64::<impl f64>::is_nan")
    def _f64(I, a, cc):
        op = cc.norm.split("::")[-1]
        x = a[0]
        if is_sym(x):
            if op == "abs":
                return z3.If(x >= 0, x, -x)
            tr = z3.If(x >= 0, z3.ToReal(z3.ToInt(x)), -z3.ToReal(z3.ToInt(-x)))
            if op == "trunc":
                return tr
            if op == "floor":
                return z3.ToReal(z3.ToInt(x))
            if op == "fract":
                return z3.simplify(x - tr)
            if op == "is_finite":
                return True
            if op == "is_nan":
                return False
        import math
        return {"fract": lambda: math.copysign(abs(x) - math.floor(abs(x)), x) if math.isfinite(x) else float("nan"), "abs": lambda: abs(x), "trunc": lambda: float(math.trunc(x)),
                "floor": lambda: float(math.floor(x)), "is_finite": lambda: math.isfinite(x), "is_nan": lambda: x != x}[op]()

    @pat(r"^std::num::<impl (i|u)\w+>::(abs|pow|checked_add|checked_sub|checked_mul|saturating_sub|saturating_add|wrapping_add|wrapping_sub|min|max)$")
    def _num(I, a, cc):
        op = cc.norm.split("::")[-1]
        ty = re.search(r"impl (\w+)>", cc.norm).group(1)
        lo, hi = INT_RANGES[ty]
        x = a[0]
        y = a[1] if len(a) > 1 else None
        if op == "abs":
            return abs(x)
        if op == "pow":
            return x**y
        if op in ("min", "max"):
            if is_sym(x) or is_sym(y):
                ge = I.truth(x >= y, op)
            else:
                ge = x >= y
            return (x if ge else y) if op == "max" else (y if ge else x)
        r = {"checked_add": lambda: x + y, "checked_sub": lambda: x - y, "checked_mul": lambda: x * y,
             "saturating_sub": lambda: x - y, "saturating_add": lambda: x + y, "wrapping_add": lambda: x + y,
             "wrapping_sub": lambda: x - y}[op]()
        if is_sym(r):
            inr = I.truth(z3.And(r >= lo, r <= hi), op)
        else:
            inr = lo <= r <= hi
        if op.startswith("checked"):
            return some(r) if inr else none()
        if op.startswith("saturating"):
            if inr:
                return r
            if is_sym(r):
                return lo if I.truth(r < lo, op) else hi
            return lo if r < lo else hi
        if inr:
            return r
        return (r - lo) % (hi - lo + 1) + lo


class _KBView(list):
    """list-like view so that Ptr(view, 0) reads/writes KeyBox.v"""

    __slots__ = ("kb",)

    def __init__(self, kb):
        list.__init__(self)
        self.kb = kb

    def __getitem__(self, i):
        return self.kb.v

    def __setitem__(self, i, v):
        self.kb.v = v


def _keyref(k):
    if isinstance(k, str):
        return ValPtr(k)
    return ValPtr(k)


def _range_bounds(r, n):
    if isinstance(r, Agg):
        t = r.ty.split("::")[-1]
        if t == "Range":
            return r.f[0], r.f[1]
        if t == "RangeFrom":
            return r.f[0], n
        if t == "RangeTo":
            return 0, r.f[0]
        if t == "RangeFull":
            return 0, n
        if t == "RangeInclusive":
            return r.f[0], r.f[1] + 1
        if t == "RangeToInclusive":
            return 0, r.f[0] + 1
    raise Unsupported("range %r" % (r,))
