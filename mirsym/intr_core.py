"""Models of core / alloc / std functions (the trusted environment of the interpreter)."""
import re
import z3

from .values import *
from .interp import as_list, PyFn, INT_RANGES, CallCtx
from .index import short_type, strip_generics
from .mirparse import split_top, match_close


class IterV:
    """An iterator, materialised eagerly."""

    __slots__ = ("items", "pos")

    def __init__(self, items):
        self.items = list(items)
        self.pos = 0

    def rest(self):
        return self.items[self.pos :]

    def __repr__(self):
        return "Iter%r" % (self.rest(),)


def get_iter(v):
    v2 = deref(v) if isinstance(v, (Ptr, ValPtr)) else v
    if isinstance(v2, IterV):
        return v2
    raise Unsupported("not an iterator: %r" % (v,))


def struct_eq(I, a, b):
    """Structural equality; returns python bool or z3 Bool."""
    a = deref_all(a) if isinstance(a, (Ptr, ValPtr, MapSlot)) else a
    b = deref_all(b) if isinstance(b, (Ptr, ValPtr, MapSlot)) else b
    if isinstance(a, BoxV):
        a = a.c[0]
    if isinstance(b, BoxV):
        b = b.c[0]
    if is_sym(a) or is_sym(b):
        if isinstance(a, bool):
            a = z3.BoolVal(a)
        if isinstance(b, bool):
            b = z3.BoolVal(b)
        if isinstance(a, (Agg, Enum, VecV, MapV)) or isinstance(b, (Agg, Enum, VecV, MapV)):
            return False
        if isinstance(a, str) and z3.is_string(b):
            a = z3.StringVal(a)
        if isinstance(b, str) and z3.is_string(a):
            b = z3.StringVal(b)
        try:
            return z3.simplify(a == b)
        except z3.Z3Exception:
            return False
    if isinstance(a, Enum) and isinstance(b, Enum):
        if is_sym(a.d) or is_sym(b.d):
            if a.f or b.f:
                raise Unsupported("equality on data-carrying enum with symbolic discriminant")
            return z3.simplify(a.d == b.d)
        if a.d != b.d:
            return False
        return _all_eq(I, a.f, b.f)
    if isinstance(a, Agg) and isinstance(b, Agg):
        return _all_eq(I, a.f, b.f)
    if isinstance(a, (VecV, SliceV)) and isinstance(b, (VecV, SliceV)):
        la, lo, hi = as_list(a)
        lb, lo2, hi2 = as_list(b)
        return _all_eq(I, la[lo:hi], lb[lo2:hi2])
    if isinstance(a, MapV) and isinstance(b, MapV):
        if set(a.d.keys()) != set(b.d.keys()):
            return False
        ks = list(a.d.keys())
        return _all_eq(I, [a.d[k].v for k in ks], [b.d[k].v for k in ks])
    if isinstance(a, JNum) and isinstance(b, JNum):
        if is_sym(a.n) or is_sym(b.n):
            if isinstance(a.n, float) or isinstance(b.n, float):
                return False
            return z3.simplify(a.n == b.n)
        if isinstance(a.n, float) != isinstance(b.n, float):
            return False
        return a.n == b.n
    if isinstance(a, Ser) and isinstance(b, Ser):
        return struct_eq(I, a.v, b.v)
    if isinstance(a, Char) and isinstance(b, Char):
        return a.c == b.c
    if type(a) != type(b) and not (isinstance(a, (int, bool)) and isinstance(b, (int, bool))):
        return False
    return a == b


def _all_eq(I, xs, ys):
    if len(xs) != len(ys):
        return False
    acc = []
    for x, y in zip(xs, ys):
        r = struct_eq(I, x, y)
        if r is False:
            return False
        if r is True:
            continue
        acc.append(r)
    if not acc:
        return True
    return z3.simplify(z3.And(*acc)) if len(acc) > 1 else acc[0]


def display(I, v):
    """Display / to_string of a run-time value (concrete strings only)."""
    v = deref_all(v) if isinstance(v, (Ptr, ValPtr, MapSlot, BoxV)) else v
    if isinstance(v, str):
        return v
    if isinstance(v, bool):
        return "true" if v else "false"
    if isinstance(v, int):
        return str(v)
    if isinstance(v, float):
        return repr(v)
    if isinstance(v, Char):
        return v.c
    if is_sym(v):
        return SymStr(v)
    if isinstance(v, (Agg, Enum)):
        it = I.p.find_impl(v.ty, "Display", "fmt")
        if it is not None:
            fm = Formatter()
            I.run_item(it, [Ptr([v], 0), Ptr([fm], 0)], None)
            return fm.out()
        if isinstance(v, Enum) and v.ty == "Value":
            if v.d == 2 and is_sym(v.f[0].n):
                return SymStr(v.f[0].n)
            return json_text(I, v)
    if isinstance(v, JNum):
        return display(I, v.n)
    if isinstance(v, Ser):
        return v
    if isinstance(v, Opaque) and v.tag == "fmtargs":
        return render_args(I, v)
    return "<%s>" % (type(v).__name__ if not isinstance(v, (Agg, Enum)) else v.ty)


class SymStr(str):
    """The decimal string rendering of a symbolic (non-negative) integer, kept as a z3 string term."""

    def __new__(cls, term):
        o = str.__new__(cls, "<sym:%s>" % term.sexpr())
        o.term = term
        o.zterm = z3.IntToStr(term) if z3.is_int(term) else term
        return o


class SerStr(str):
    def __new__(cls, ser):
        o = str.__new__(cls, "<ser:%x>" % id(ser))
        o.ser = ser
        return o


def json_text(I, v):
    """Compact JSON text of a serde_json::Value (concrete leaves only)."""
    import json as _json

    def conv(x):
        x = deref_all(x) if isinstance(x, (Ptr, ValPtr, MapSlot)) else x
        if isinstance(x, Enum) and x.ty == "Value":
            if x.d == 0:
                return None
            if x.d == 1:
                return x.f[0]
            if x.d == 2:
                n = x.f[0].n
                if is_sym(n):
                    raise Unsupported("json text of symbolic number")
                return n
            if x.d == 3:
                return x.f[0]
            if x.d == 4:
                return [conv(e) for e in x.f[0].a]
            if x.d == 5:
                m = x.f[0]
                return {k: conv(m.d[k].v) for k in m.keys()}
        raise Unsupported("json text of %r" % (x,))

    return _json.dumps(conv(v), separators=(",", ":"), ensure_ascii=False)


class Formatter:
    def __init__(self):
        self.parts = []

    def out(self):
        if len(self.parts) == 1:
            return self.parts[0]
        return "".join(SerStr(x) if isinstance(x, Ser) else x for x in self.parts)


def render_args(I, a):
    tmpl, args = a.v
    if isinstance(tmpl, str):
        return tmpl
    out = []
    i = 0
    n = len(tmpl)
    ai = 0
    while i < n:
        b = tmpl[i]
        i += 1
        if b == 0:
            break
        if b < 0x80:
            out.append(bytes(tmpl[i : i + b]).decode("utf-8", "replace"))
            i += b
        elif b == 0x80:
            ln = tmpl[i] | (tmpl[i + 1] << 8)
            i += 2
            out.append(bytes(tmpl[i : i + ln]).decode("utf-8", "replace"))
            i += ln
        else:
            opts = b & 0x3F
            if opts & 1:
                i += 4
            if opts & 2:
                i += 2
            if opts & 4:
                i += 2
            idx = ai
            if opts & 8:
                idx = tmpl[i] | (tmpl[i + 1] << 8)
                i += 2
            ai = idx + 1
            kind, val = args[idx].v
            if kind == "display":
                s = display(I, val)
            else:
                s = debug_str(I, val)
            out.append(s)
    if len(out) == 1:
        return out[0]
    return "".join(SerStr(o) if isinstance(o, Ser) else o for o in out)


def debug_str(I, v):
    v = deref_all(v) if isinstance(v, (Ptr, ValPtr, MapSlot, BoxV)) else v
    if isinstance(v, str):
        return '"%s"' % v
    if isinstance(v, (int, bool, float)):
        return display(I, v)
    return "<dbg>"


def default_for(I, ty, frame=None):
    """Default::default() for a type given as text."""
    t = ty.strip()
    st = short_type(t)
    if st in ("String", "&str", "str"):
        return ""
    if st == "bool":
        return False
    if st in INT_RANGES:
        return 0
    if st in ("f64", "f32"):
        return 0.0
    if st.startswith("Vec<") or st == "Vec":
        return VecV([])
    if st.startswith("Option<") or st == "Option":
        return none()
    if st.startswith("HashMap<") or st.startswith("HashSet<"):
        return MapV(False, st.split("<")[0])
    if st.startswith("BTreeMap<") or st.startswith("BTreeSet<") or st.startswith("Map<") or st == "Map":
        return MapV(True, st.split("<")[0])
    if st == "Value":
        return Enum("Value", 0, [], "Null")
    if st == "()":
        return UNIT
    if st.startswith("Box<"):
        return BoxV(default_for(I, t[t.index("<") + 1 : -1], frame), "box")
    if st.startswith("Arc<"):
        return BoxV(default_for(I, t[t.index("<") + 1 : -1], frame), "arc")
    if st.startswith("RwLock<") or st.startswith("Mutex<") or st.startswith("RefCell<"):
        return Agg(st.split("<")[0], [default_for(I, t[t.index("<") + 1 : -1], frame)])
    if st.startswith("PhantomData"):
        return Agg("PhantomData", [])
    it = I.p.find_impl(t, "Default", "default")
    if it is not None:
        return I.run_item(it, [], None)
    raise Unsupported("Default for " + t)


def register(I):
    intr = I.intrinsic
    pat = I.pattern

    # ------------------------------------------------------------------ identity-like
    @intr("std::hint::must_use", "std::convert::identity", "std::mem::drop", "std::mem::drop",
          "std::hint::black_box")
    def _ident(I, a, cc):
        if cc.norm.endswith("drop"):
            if I.race is not None and I.race.active and a:
                I.race.dropped(a[0])
            return UNIT
        return a[0]

    @intr("std::mem::take")
    def _take(I, a, cc):
        p = a[0]
        v = p.get()
        p.set(default_for(I, cc.generics()[0], cc.frame))
        return v

    @intr("std::mem::replace")
    def _replace(I, a, cc):
        p = a[0]
        v = p.get()
        p.set(a[1])
        return v

    @intr("std::mem::swap")
    def _swap(I, a, cc):
        x = a[0].get()
        a[0].set(a[1].get())
        a[1].set(x)
        return UNIT

    # ------------------------------------------------------------------ Deref / Borrow / AsRef
    @pat(r"^<.* as std::ops::Deref(Mut)?>::deref(_mut)?$")
    def _deref(I, a, cc):
        r = a[0]
        v = deref(r)
        if isinstance(v, BoxV):
            return Ptr(v.c, 0)
        if isinstance(v, (Ptr, MapSlot)):
            return v  # lock guard / Ref / RefMut
        if isinstance(v, (str, Ser)):
            return v if not cc.norm.endswith("_mut") else r
        if isinstance(v, (VecV, SliceV)):
            return r
        if isinstance(v, Agg) and v.ty in ("Pin", "ManuallyDrop", "Reverse"):
            return Ptr(v.f, 0)
        if isinstance(v, ValPtr):
            return v
        raise Unsupported("Deref of %r (%s)" % (v, cc.norm))

    @pat(r"^<.* as std::convert::AsRef>::as_ref$", )
    def _asref(I, a, cc):
        v = deref(a[0])
        if isinstance(v, str):
            return v
        if isinstance(v, BoxV):
            return Ptr(v.c, 0)
        if isinstance(v, Enum) and "AsRef<str>" in cc.raw and I.p.src.enum_def(v.ty) is not None:
            # strum::AsRefStr
            attrs = " ".join(I.p.src.enum_attrs.get(v.ty.split("::")[-1], []))
            for name, d, payload in I.p.src.enum_def(v.ty):
                if d == v.d:
                    if "serialize_all" in attrs and "snake_case" in attrs:
                        from .intr_serde import snake
                        return snake(name)
                    return name
        return a[0]

    @pat(r"^<.* as std::str::FromStr>::from_str$")
    def _strum_from_str(I, a, cc):
        # strum::EnumString on a repo enum (inverse of the AsRefStr model above); anything else has its own impl item or is unsupported
        m = re.match(r"^<(.*) as std::str::FromStr>::from_str$", cc.norm)
        ty = m.group(1).split("::")[-1] if m else ""
        ed = I.p.src.enum_def(ty)
        attrs = " ".join(I.p.src.enum_attrs.get(ty, []))
        text = deref(a[0])
        if ed is None or "EnumString" not in attrs or not isinstance(text, str):
            raise Unsupported("FromStr for %s" % cc.norm)
        from .intr_serde import snake
        for name, d, payload in ed:
            key = snake(name) if ("serialize_all" in attrs and "snake_case" in attrs) else name
            if key == text and not payload:
                return ok(Enum(ty, d, [], name))
        return err(Opaque("strum::ParseError::VariantNotFound"))

    @pat(r"^<.* as std::borrow::Borrow(Mut)?>::borrow(_mut)?$")
    def _borrow(I, a, cc):
        v = deref(a[0])
        if isinstance(v, str):
            return v
        return a[0]

    # ------------------------------------------------------------------ locks and cells
    @intr("std::sync::RwLock::new", "std::sync::Mutex::new", "std::cell::RefCell::new", "std::cell::Cell::new",
          "tokio::sync::Mutex::new", "std::sync::OnceLock::new")
    def _lock_new(I, a, cc):
        return Agg(cc.norm.split("::")[-2], [a[0] if a else UNINIT])

    @intr("std::sync::RwLock::read", "std::sync::RwLock::write", "std::sync::Mutex::lock")
    def _lock(I, a, cc):
        lk = deref(a[0])
        R = I.race
        if R is not None and R.active:
            return ok(R.acquire(I, lk, "r" if cc.norm.endswith("::read") else "w"))
        return ok(Ptr(lk.f, 0))

    @intr("std::cell::RefCell::borrow", "std::cell::RefCell::borrow_mut")
    def _refcell(I, a, cc):
        lk = deref(a[0])
        return Ptr(lk.f, 0)

    @intr("std::cell::RefCell::into_inner", "std::sync::RwLock::into_inner", "std::cell::Cell::get")
    def _cell_inner(I, a, cc):
        v = a[0]
        if isinstance(v, (Ptr, ValPtr)):
            v = v.get()
        return v.f[0]

    # ------------------------------------------------------------------ Arc / Box / Weak
    @intr("std::sync::Arc::new", "std::rc::Rc::new")
    def _arc_new(I, a, cc):
        return BoxV(a[0], "arc")

    @intr("std::boxed::Box::new")
    def _box_new(I, a, cc):
        return BoxV(a[0], "box")

    @intr("std::boxed::Box::new_uninit")
    def _box_uninit(I, a, cc):
        return BoxV(Agg("MaybeUninit", []), "box")

    @intr("std::boxed::box_assume_init_into_vec_unsafe", "std::boxed::Box::assume_init")
    def _box_into_vec(I, a, cc):
        if cc.norm.endswith("assume_init"):
            return a[0]
        return a[0].c[0]

    @intr("std::sync::Arc::downgrade", "std::rc::Rc::downgrade")
    def _downgrade(I, a, cc):
        return WeakV(deref(a[0]))

    @intr("std::sync::Weak::new", "std::rc::Weak::new")
    def _weak_new(I, a, cc):
        return WeakV(None)

    @intr("std::sync::Weak::upgrade", "std::rc::Weak::upgrade")
    def _upgrade(I, a, cc):
        w = deref(a[0])
        if w.t is None:
            return none()
        return some(w.t)

    @intr("std::sync::Arc::ptr_eq")
    def _ptr_eq(I, a, cc):
        return deref(a[0]) is deref(a[1])

    # ------------------------------------------------------------------ Clone / PartialEq / Default / Debug
    @pat(r"^<.* as std::clone::Clone>::clone$")
    def _clone(I, a, cc):
        v = a[0]
        if isinstance(v, (Ptr, ValPtr, MapSlot)):
            v = v.get()
        elif isinstance(v, str):
            return v
        if isinstance(v, (Ptr, ValPtr)):
            return v  # Clone of a reference (&T: Clone)
        if isinstance(v, WeakV):
            return WeakV(v.t)
        return clone_value(v)

    @pat(r"^<.* as std::cmp::PartialEq>::(eq|ne)$")
    def _eq(I, a, cc):
        r = struct_eq(I, a[0], a[1])
        if cc.norm.endswith("::ne"):
            if r is True or r is False:
                return not r
            return z3.simplify(z3.Not(r))
        return r

    @pat(r"^<.* as std::default::Default>::default$")
    def _default(I, a, cc):
        return default_for(I, cc.self_ty(), cc.frame)

    @pat(r"^<.* as std::cmp::(Partial)?Ord>::(partial_)?cmp$")
    def _cmp(I, a, cc):
        x = deref_all(a[0])
        y = deref_all(a[1])
        if is_sym(x) or is_sym(y):
            i = I.branch([x < y, x == y, x > y], "cmp")
            d = i - 1
        else:
            if isinstance(x, str) and isinstance(y, str):
                if isinstance(x, SymStr) or isinstance(y, SymStr):
                    zx = x.zterm if isinstance(x, SymStr) else z3.StringVal(x)
                    zy = y.zterm if isinstance(y, SymStr) else z3.StringVal(y)
                    i = I.branch([zx < zy, zx == zy, zy < zx], "str-cmp")
                    d = i - 1
                    o = Enum("Ordering", d, [], ["Less", "Equal", "Greater"][d + 1])
                    return some(o) if "partial_cmp" in cc.norm else o
                x = x.encode("utf-8")
                y = y.encode("utf-8")
            d = -1 if x < y else (0 if x == y else 1)
        o = Enum("Ordering", d, [], ["Less", "Equal", "Greater"][d + 1])
        if "partial_cmp" in cc.norm:
            return some(o)
        return o

    @intr("std::cmp::Ordering::then")
    def _then(I, a, cc):
        return a[0] if a[0].d != 0 else a[1]

    @intr("std::cmp::Ordering::reverse")
    def _rev(I, a, cc):
        d = -a[0].d
        return Enum("Ordering", d, [], ["Less", "Equal", "Greater"][d + 1])

    @pat(r"^<.* as std::cmp::PartialOrd>::(lt|le|gt|ge)$")
    def _pord(I, a, cc):
        x = deref_all(a[0])
        y = deref_all(a[1])
        op = cc.norm[-2:]
        if isinstance(x, Enum) and isinstance(y, Enum):
            x, y = x.d, y.d
        r = {"lt": lambda: x < y, "le": lambda: x <= y, "gt": lambda: x > y, "ge": lambda: x >= y}[op]()
        return z3.simplify(r) if is_sym(r) else r

    @intr("std::cmp::max", "std::cmp::min", "std::cmp::Ord::max", "std::cmp::Ord::min")
    def _maxmin(I, a, cc):
        x, y = a
        if is_sym(x) or is_sym(y):
            ge = I.truth(x >= y, "maxmin")
        else:
            ge = x >= y
        if cc.norm.endswith("max"):
            return x if ge else y
        return y if ge else x

    # ------------------------------------------------------------------ fmt
    @intr("std::fmt::rt::Argument::new_display", "std::fmt::rt::Argument::new_debug",
          "std::fmt::rt::Argument::new_lower_hex", "std::fmt::rt::Argument::new_upper_hex")
    def _fmtarg(I, a, cc):
        return Opaque("fmtarg", ("display" if cc.norm.endswith("display") else "debug", a[0]))

    @intr("std::fmt::Arguments::new", "std::fmt::Arguments::new")
    def _args_new(I, a, cc):
        tmpl = deref_all(a[0])
        arr, lo, hi = as_list(a[1])
        tl, tlo, thi = as_list(tmpl)
        return Opaque("fmtargs", (tl[tlo:thi], arr[lo:hi]))

    @intr("std::fmt::Arguments::from_str", "std::fmt::Arguments::from_str")
    def _args_str(I, a, cc):
        return Opaque("fmtargs", (a[0], []))

    @intr("std::fmt::format", "std::fmt::format")
    def _format(I, a, cc):
        return render_args(I, a[0])

    @intr("std::fmt::Formatter::write_str", "<std::fmt::Formatter as std::fmt::Write>::write_str")
    def _write_str(I, a, cc):
        fm = deref(a[0])
        fm.parts.append(a[1])
        return ok(UNIT)

    @intr("std::fmt::Formatter::write_fmt")
    def _write_fmt(I, a, cc):
        fm = deref(a[0])
        fm.parts.append(render_args(I, a[1]))
        return ok(UNIT)

    @intr("std::io::_print", "std::io::_eprint", "std::io::stdio::_print", "std::io::stdio::_eprint")
    def _print(I, a, cc):
        return UNIT

    @pat(r"^<.* as std::string::ToString>::to_string$")
    def _to_string(I, a, cc):
        v = deref_all(a[0])
        if isinstance(v, Enum) and v.ty == "Value":
            if v.d == 2 and is_sym(v.f[0].n):
                return SymStr(v.f[0].n)
            return json_text(I, v)
        return display(I, a[0])

    @pat(r"^<.* as std::fmt::(Display|Debug)>::fmt$")
    def _fmt_fmt(I, a, cc):
        fm = deref(a[1])
        if cc.norm.endswith("Display>::fmt"):
            fm.parts.append(display(I, a[0]))
        else:
            fm.parts.append(debug_str(I, a[0]))
        return ok(UNIT)

    # panics
    @intr("std::rt::begin_panic", "std::panicking::panic", "std::panicking::panic_fmt", "std::rt::panic_fmt",
          "std::panicking::panic_display", "std::panicking::panic_explicit", "std::option::expect_failed",
          "std::result::unwrap_failed", "std::panicking::unreachable_display", "std::panicking::panic_nounwind")
    def _panic(I, a, cc):
        msg = ""
        if a:
            v = a[0]
            msg = display(I, v) if not isinstance(v, str) else v
        raise RustPanic(str(msg))

    # ------------------------------------------------------------------ Option
    def unwrap_common(v, what):
        if not isinstance(v, Enum):
            raise Unsupported("unwrap of %r" % (v,))
        if v.ty == "Option":
            if v.d == 1:
                return v.f[0]
            raise RustPanic("called `Option::%s()` on a `None` value" % what)
        if v.d == 0:
            return v.f[0]
        raise RustPanic("called `Result::%s()` on an `Err` value" % what)

    @intr("std::option::Option::unwrap", "std::result::Result::unwrap")
    def _unwrap(I, a, cc):
        return unwrap_common(a[0], "unwrap")

    @intr("std::option::Option::expect", "std::result::Result::expect")
    def _expect(I, a, cc):
        try:
            return unwrap_common(a[0], "expect")
        except RustPanic:
            raise RustPanic(str(a[1]))

    @intr("std::result::Result::unwrap_err", "std::result::Result::expect_err")
    def _unwrap_err(I, a, cc):
        if a[0].d == 1:
            return a[0].f[0]
        raise RustPanic("called `Result::unwrap_err()` on an `Ok` value")

    def is_pos(v):
        # Some / Ok
        return (v.ty == "Option" and v.d == 1) or (v.ty == "Result" and v.d == 0)

    @intr("std::option::Option::unwrap_or", "std::result::Result::unwrap_or")
    def _unwrap_or(I, a, cc):
        return a[0].f[0] if is_pos(a[0]) else a[1]

    @intr("std::option::Option::unwrap_or_default", "std::result::Result::unwrap_or_default")
    def _unwrap_or_default(I, a, cc):
        if is_pos(a[0]):
            return a[0].f[0]
        t = cc.ret_ty() or cc.generics()[0]
        return default_for(I, t, cc.frame)

    @intr("std::option::Option::unwrap_or_else")
    def _unwrap_or_else(I, a, cc):
        if is_pos(a[0]):
            return a[0].f[0]
        return I.call_value(a[1], [], cc.frame)

    @intr("std::result::Result::unwrap_or_else")
    def _r_unwrap_or_else(I, a, cc):
        if is_pos(a[0]):
            return a[0].f[0]
        return I.call_value(a[1], [a[0].f[0]], cc.frame)

    @intr("std::option::Option::map")
    def _o_map(I, a, cc):
        if a[0].d == 1:
            return some(I.call_value(a[1], [a[0].f[0]], cc.frame))
        return none()

    @intr("std::option::Option::map_or")
    def _o_map_or(I, a, cc):
        if a[0].d == 1:
            return I.call_value(a[2], [a[0].f[0]], cc.frame)
        return a[1]

    @intr("std::option::Option::map_or_else")
    def _o_map_or_else(I, a, cc):
        if a[0].d == 1:
            return I.call_value(a[2], [a[0].f[0]], cc.frame)
        return I.call_value(a[1], [], cc.frame)

    @intr("std::option::Option::and_then")
    def _o_and_then(I, a, cc):
        if a[0].d == 1:
            return I.call_value(a[1], [a[0].f[0]], cc.frame)
        return none()

    @intr("std::option::Option::or_else")
    def _o_or_else(I, a, cc):
        if a[0].d == 1:
            return a[0]
        return I.call_value(a[1], [], cc.frame)

    @intr("std::option::Option::or")
    def _o_or(I, a, cc):
        return a[0] if a[0].d == 1 else a[1]

    @intr("std::option::Option::filter")
    def _o_filter(I, a, cc):
        if a[0].d == 1:
            r = I.call_value(a[1], [Ptr(a[0].f, 0)], cc.frame)
            if I.truth(r, "Option::filter"):
                return a[0]
        return none()

    @intr("std::option::Option::ok_or")
    def _ok_or(I, a, cc):
        return ok(a[0].f[0]) if a[0].d == 1 else err(a[1])

    @intr("std::option::Option::ok_or_else")
    def _ok_or_else(I, a, cc):
        return ok(a[0].f[0]) if a[0].d == 1 else err(I.call_value(a[1], [], cc.frame))

    @intr("std::option::Option::is_some", "std::result::Result::is_err")
    def _is_some(I, a, cc):
        return deref(a[0]).d == 1

    @intr("std::option::Option::is_none", "std::result::Result::is_ok")
    def _is_none(I, a, cc):
        return deref(a[0]).d == 0

    @intr("std::option::Option::is_some_and")
    def _is_some_and(I, a, cc):
        if a[0].d == 1:
            return I.call_value(a[1], [a[0].f[0]], cc.frame)
        return False

    @intr("std::option::Option::as_ref", "std::option::Option::as_mut", "std::option::Option::as_deref",
          "std::option::Option::as_deref_mut")
    def _as_ref(I, a, cc):
        o = deref(a[0])
        if o.d == 1:
            v = o.f[0]
            if "deref" in cc.norm:
                if isinstance(v, str):
                    return some(v)
                if isinstance(v, BoxV):
                    return some(Ptr(v.c, 0))
            return some(Ptr(o.f, 0))
        return none()

    @intr("std::result::Result::as_ref", "std::result::Result::as_mut")
    def _r_as_ref(I, a, cc):
        o = deref(a[0])
        return Enum("Result", o.d, [Ptr(o.f, 0)], o.vn)

    @intr("std::option::Option::cloned", "std::option::Option::copied")
    def _o_cloned(I, a, cc):
        if a[0].d == 1:
            return some(clone_value(deref(a[0].f[0])))
        return none()

    @intr("std::option::Option::take")
    def _o_take(I, a, cc):
        p = a[0]
        v = p.get()
        p.set(none())
        return v

    @intr("std::option::Option::replace")
    def _o_replace(I, a, cc):
        p = a[0]
        v = p.get()
        p.set(some(a[1]))
        return v

    @intr("std::option::Option::insert", "std::option::Option::get_or_insert")
    def _o_insert(I, a, cc):
        p = a[0]
        if cc.norm.endswith("get_or_insert") and p.get().d == 1:
            return Ptr(p.get().f, 0)
        o = some(a[1])
        p.set(o)
        return Ptr(o.f, 0)

    @intr("std::option::Option::get_or_insert_with")
    def _o_goiw(I, a, cc):
        p = a[0]
        if p.get().d != 1:
            p.set(some(I.call_value(a[1], [], cc.frame)))
        return Ptr(p.get().f, 0)

    @intr("std::option::Option::ok_or_default")
    def _o_x(I, a, cc):
        raise Unsupported(cc.norm)

    # ------------------------------------------------------------------ Result
    @intr("std::result::Result::map")
    def _r_map(I, a, cc):
        if a[0].d == 0:
            return ok(I.call_value(a[1], [a[0].f[0]], cc.frame))
        return a[0]

    @intr("std::result::Result::map_err")
    def _r_map_err(I, a, cc):
        if a[0].d == 1:
            return err(I.call_value(a[1], [a[0].f[0]], cc.frame))
        return a[0]

    @intr("std::result::Result::and_then")
    def _r_and_then(I, a, cc):
        if a[0].d == 0:
            return I.call_value(a[1], [a[0].f[0]], cc.frame)
        return a[0]

    @intr("std::result::Result::ok")
    def _r_ok(I, a, cc):
        return some(a[0].f[0]) if a[0].d == 0 else none()

    @intr("std::result::Result::err")
    def _r_err(I, a, cc):
        return some(a[0].f[0]) if a[0].d == 1 else none()

    @intr("std::result::Result::or_else")
    def _r_or_else(I, a, cc):
        if a[0].d == 0:
            return a[0]
        return I.call_value(a[1], [a[0].f[0]], cc.frame)

    @intr("std::result::Result::map_or")
    def _r_map_or(I, a, cc):
        if a[0].d == 0:
            return I.call_value(a[2], [a[0].f[0]], cc.frame)
        return a[1]

    # Try
    @pat(r"^<std::result::Result as std::ops::Try>::branch$")
    def _r_branch(I, a, cc):
        r = a[0]
        if r.d == 0:
            return Enum("ControlFlow", 0, [r.f[0]], "Continue")
        return Enum("ControlFlow", 1, [err(r.f[0])], "Break")

    @pat(r"^<std::option::Option as std::ops::Try>::branch$")
    def _o_branch(I, a, cc):
        r = a[0]
        if r.d == 1:
            return Enum("ControlFlow", 0, [r.f[0]], "Continue")
        return Enum("ControlFlow", 1, [none()], "Break")

    @pat(r"^<std::result::Result as std::ops::FromResidual>::from_residual$")
    def _r_from_residual(I, a, cc):
        e = a[0].f[0]
        # Result<T, F> from Result<Infallible, E>: convert with From when F != E
        raw = cc.raw
        j = match_close(raw, 0)
        inner = raw[1:j]
        k = inner.index(" as ")
        selfty = I.subst(inner[:k], cc.frame)
        res = I.subst(inner[k + 4 :], cc.frame)
        fa = split_top(selfty[selfty.index("<") + 1 : -1])
        m = re.search(r"FromResidual<(.*)>$", res, re.S)
        ra = split_top(m.group(1)[m.group(1).index("<") + 1 : -1])
        F = fa[-1].strip()
        E = ra[-1].strip()
        if F != E:
            e = I.call_raw("<%s as std::convert::From<%s>>::from" % (F, E), [e], cc.frame)
        return err(e)

    @pat(r"^<std::option::Option as std::ops::FromResidual>::from_residual$")
    def _o_from_residual(I, a, cc):
        return none()

    # ------------------------------------------------------------------ conversions
    @pat(r"^<.* as std::convert::Into>::into$")
    def _into(I, a, cc):
        raw = cc.raw
        j = match_close(raw, 0)
        inner = raw[1:j]
        k = inner.index(" as ")
        src = I.subst(inner[:k], cc.frame).strip()
        m = re.search(r"Into<(.*)>$", I.subst(inner[k + 4 :], cc.frame), re.S)
        dst = m.group(1).strip()
        if src == dst:
            return a[0]
        return I.call_raw("<%s as std::convert::From<%s>>::from" % (dst, src), a, cc.frame, cc.dest_ty)

    @pat(r"^<.* as std::convert::From>::from$")
    def _from(I, a, cc):
        raw = cc.raw
        j = match_close(raw, 0)
        inner = raw[1:j]
        k = inner.index(" as ")
        dst = short_type(I.subst(inner[:k], cc.frame))
        m = re.search(r"From<(.*)>$", I.subst(inner[k + 4 :], cc.frame), re.S)
        src = short_type(m.group(1))
        v = a[0]
        if dst == src:
            return v
        if dst == "String":
            if isinstance(v, str):
                return v
            if isinstance(v, Char):
                return v.c
            vv = deref_all(v)
            if isinstance(vv, str):
                return vv
        if dst in INT_RANGES or dst in ("f64", "f32"):
            if isinstance(v, bool):
                return 1 if v else 0
            if dst.startswith("f") and isinstance(v, int):
                return float(v)
            return v
        if dst.startswith("Box<") :
            if dst.startswith("Box<dyn_Error") or dst.startswith("Box<dynError"):
                return BoxV(v, "box")
            return BoxV(v, "box")
        if dst.startswith("Arc<"):
            if isinstance(v, BoxV):
                return BoxV(v.c[0], "arc")
            return BoxV(v, "arc")
        if dst.startswith("Vec<"):
            if isinstance(v, str):
                return VecV(list(v.encode("utf-8")))
            arr, lo, hi = as_list(v)
            return VecV([clone_value(x) for x in arr[lo:hi]])
        if dst.startswith("Option<"):
            return some(v)
        if dst == "Value":
            from .intr_serde import to_json
            return to_json(I, v, src)
        if dst == "Number":
            return JNum(v)
        if dst.startswith("Cow<"):
            return v
        if dst.startswith("PathBuf") or dst.startswith("OsString"):
            return v
        fb = getattr(I, "convert_fallback", None)   # models of foreign crates registered by a driver (props/sqlite.py)
        if fb is not None:
            r = fb(I, v, src, dst)
            if r is not NotImplemented:
                return r
        raise Unsupported("From<%s> for %s" % (src, dst))

    @pat(r"^<.* as std::convert::TryFrom>::try_from$", r"^<.* as std::convert::TryInto>::try_into$")
    def _try_from(I, a, cc):
        t = cc.ret_ty()
        m = re.match(r"std::result::Result<(\w+),", t or "")
        v = a[0]
        if m and m.group(1) in INT_RANGES:
            lo, hi = INT_RANGES[m.group(1)]
            if is_sym(v):
                inr = I.truth(z3.And(v >= lo, v <= hi), "try_from")
            else:
                inr = lo <= v <= hi
            return ok(v) if inr else err(Opaque("TryFromIntError"))
        raise Unsupported("TryFrom " + str(t))

    @pat(r"^<.* as std::borrow::ToOwned>::to_owned$")
    def _to_owned(I, a, cc):
        v = a[0]
        if isinstance(v, str):
            return v
        if isinstance(v, SliceV) or isinstance(deref(v), (VecV, SliceV)):
            arr, lo, hi = as_list(v)
            return VecV([clone_value(x) for x in arr[lo:hi]])
        return clone_value(deref(v))

    @intr("std::slice::<impl [T]>::to_vec", "std::slice::<impl [T]>::to_owned", "<[T] as std::slice::SpecToVec>::to_vec")
    def _to_vec(I, a, cc):
        arr, lo, hi = as_list(a[0])
        return VecV([clone_value(x) for x in arr[lo:hi]])

    @intr("std::bool::<impl bool>::then_some")
    def _then_some(I, a, cc):
        return some(a[1]) if I.truth(a[0], "then_some") else none()

    @intr("std::bool::<impl bool>::then")
    def _then(I, a, cc):
        return some(I.call_value(a[1], [], cc.frame)) if I.truth(a[0], "then") else none()

    @intr("std::intrinsics::discriminant_value", "std::intrinsics::discriminant_value", "std::mem::discriminant")
    def _discr(I, a, cc):
        return deref(a[0]).d

    @intr("std::any::type_name")
    def _type_name(I, a, cc):
        return cc.generics()[0] if cc.generics() else "?"

    @intr("std::env::var")
    def _env_var(I, a, cc):
        return err(Opaque("VarError"))

    @pat(r"^<.* as std::ops::Fn(Mut|Once)?>::call(_mut|_once)?$")
    def _fn_call(I, a, cc):
        tup = a[1]
        args = list(tup.f) if isinstance(tup, Agg) else []
        return I.call_value(a[0], args, cc.frame, cc.dest_ty)

    @pat(r"^<.* as std::ops::Drop>::drop$")
    def _drop(I, a, cc):
        return UNIT

    @intr("std::ptr::drop_in_place")
    def _dip(I, a, cc):
        return UNIT
