"""Model of the rquickjs value API used by env/value.rs.

QuickJS is modelled as preserving what it is handed: an Int is a 32-bit integer, a Float a double,
strings, arrays and objects keep their contents (its documented contract).  Nothing of the
interpreter itself is modelled here."""
import z3

from .values import *
from .intr_core import IterV

TYPES = ["Uninitialized", "Undefined", "Null", "Bool", "Int", "Float", "String", "Symbol", "Array", "Constructor", "Function", "Promise", "Exception",
         "Object", "Module", "BigInt", "Unknown"]


class JsV:
    __slots__ = ("kind", "v")

    def __init__(self, kind, v=None):
        self.kind = kind
        self.v = v

    def __repr__(self):
        return "Js%s(%r)" % (self.kind, self.v)


def register(I):
    intr = I.intrinsic
    pat = I.pattern

    @pat(r"^<rquickjs::Ctx as std::clone::Clone>::clone$")
    def _ctx_clone(I, a, cc):
        return Opaque("jsctx")

    V = "rquickjs::Value::"

    @intr(V + "new_null")
    def _null(I, a, cc):
        return JsV("Null")

    @intr(V + "new_undefined")
    def _undef(I, a, cc):
        return JsV("Undefined")

    @intr(V + "new_bool")
    def _bool(I, a, cc):
        return JsV("Bool", a[1])

    @intr(V + "new_int")
    def _int(I, a, cc):
        return JsV("Int", a[1])

    @intr(V + "new_float")
    def _float(I, a, cc):
        return JsV("Float", a[1])

    @intr("rquickjs::String::from_str")
    def _str(I, a, cc):
        return ok(JsV("String", deref_all(a[1])))

    @intr(V + "from_string", V + "from_array", V + "from_object")
    def _from(I, a, cc):
        return a[0]

    @intr("rquickjs::Array::new")
    def _arr_new(I, a, cc):
        return ok(JsV("Array", []))

    @intr("rquickjs::Object::new")
    def _obj_new(I, a, cc):
        return ok(JsV("Object", {}))

    @intr("rquickjs::Array::set")
    def _arr_set(I, a, cc):
        arr = deref_all(a[0])
        idx = a[1]
        while len(arr.v) <= idx:
            arr.v.append(JsV("Undefined"))
        arr.v[idx] = a[2]
        return ok(UNIT)

    @pat(r"^<.* as rquickjs::IntoAtom>::into_atom$")
    def _atom(I, a, cc):
        return ok(deref_all(a[0]))

    @intr("rquickjs::Object::set")
    def _obj_set(I, a, cc):
        obj = deref_all(a[0])
        obj.v[a[1]] = a[2]
        return ok(UNIT)

    @intr(V + "type_of")
    def _type_of(I, a, cc):
        v = deref_all(a[0])
        return Enum("Type", TYPES.index(v.kind), [], v.kind)

    @intr(V + "as_bool", V + "as_int", V + "as_float")
    def _as_scalar(I, a, cc):
        v = deref_all(a[0])
        want = {"as_bool": "Bool", "as_int": "Int", "as_float": "Float"}[cc.norm.split("::")[-1]]
        if v.kind == want:
            return some(v.v)
        if want == "Float" and v.kind == "Int":
            return some(float(v.v) if not is_sym(v.v) else z3.ToReal(v.v))
        return none()

    @intr(V + "as_string", V + "as_array", V + "as_object")
    def _as_ref(I, a, cc):
        v = deref_all(a[0])
        want = {"as_string": "String", "as_array": "Array", "as_object": "Object"}[cc.norm.split("::")[-1]]
        return some(Ptr([v], 0)) if v.kind == want else none()

    @intr("rquickjs::String::to_string")
    def _to_string(I, a, cc):
        return ok(deref_all(a[0]).v)

    @intr("rquickjs::Array::iter")
    def _arr_iter(I, a, cc):
        return IterV([ok(x) for x in deref_all(a[0]).v])

    @intr("rquickjs::Object::keys")
    def _obj_keys(I, a, cc):
        return IterV([ok(k) for k in deref_all(a[0]).v.keys()])

    @intr("rquickjs::Object::get")
    def _obj_get(I, a, cc):
        obj = deref_all(a[0])
        k = deref_all(a[1])
        if k in obj.v:
            return ok(obj.v[k])
        return ok(JsV("Undefined"))

    @pat(r"^<rquickjs::Value as std::clone::Clone>::clone$", r"^<rquickjs::Array as std::clone::Clone>::clone$", r"^<rquickjs::Object as std::clone::Clone>::clone$")
    def _clone(I, a, cc):
        return deref_all(a[0])
