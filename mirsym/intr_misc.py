"""Models of regex and globset (library behaviour taken as given)."""
import re as _re
from .values import *
from .intr_core import IterV


def register(I):
    intr = I.intrinsic
    pat = I.pattern

    @intr("regex::Regex::new")
    def _re_new(I, a, cc):
        p = deref_all(a[0])
        try:
            return ok(Opaque("regex", _re.compile(p, _re.S if False else 0)))
        except _re.error as e:
            return err(Opaque("regex_error", str(e)))

    @intr("regex::Regex::is_match")
    def _re_is_match(I, a, cc):
        s = deref_all(a[1])
        if not isinstance(s, str) or type(s) is not str:
            raise Unsupported("regex on non-concrete string %r" % (s,))
        return deref_all(a[0]).v.search(s) is not None

    @intr("regex::Regex::captures")
    def _re_captures(I, a, cc):
        s = deref_all(a[1])
        m = deref_all(a[0]).v.search(s)
        return some(Opaque("captures", (m, s))) if m else none()

    @intr("regex::Captures::get")
    def _cap_get(I, a, cc):
        m, s = deref_all(a[0]).v
        i = a[1]
        if i <= (m.re.groups) and m.group(i) is not None:
            return some(Opaque("match", (m.start(i), m.end(i), s)))
        return none()

    @intr("regex::Match::as_str")
    def _m_as_str(I, a, cc):
        st, en, s = deref_all(a[0]).v
        return s[st:en]

    @intr("regex::Match::range")
    def _m_range(I, a, cc):
        st, en, s = deref_all(a[0]).v
        # byte offsets
        return Agg("Range", [len(s[:st].encode("utf-8")), len(s[:en].encode("utf-8"))])

    @intr("regex::Match::start")
    def _m_start(I, a, cc):
        st, en, s = deref_all(a[0]).v
        return len(s[:st].encode("utf-8"))

    @intr("regex::Match::end")
    def _m_end(I, a, cc):
        st, en, s = deref_all(a[0]).v
        return len(s[:en].encode("utf-8"))

    @intr("regex::Regex::find_iter")
    def _re_find_iter(I, a, cc):
        s = deref_all(a[1])
        return IterV([Opaque("match", (m.start(), m.end(), s)) for m in deref_all(a[0]).v.finditer(s)])

    @intr("regex::Regex::find")
    def _re_find(I, a, cc):
        s = deref_all(a[1])
        m = deref_all(a[0]).v.search(s)
        return some(Opaque("match", (m.start(), m.end(), s))) if m else none()


def glob_to_regex(pat):
    """globset default syntax (no literal separator): * ? [..] {a,b}  -> python regex."""
    out = []
    i = 0
    n = len(pat)
    depth = 0
    while i < n:
        c = pat[i]
        if c == "*":
            while i + 1 < n and pat[i + 1] == "*":
                i += 1
            out.append(".*")
        elif c == "?":
            out.append(".")
        elif c == "[":
            j = pat.find("]", i + 2 if pat[i + 1 : i + 2] in ("!", "^") else i + 1)
            if j < 0:
                out.append(_re.escape(c))
            else:
                body = pat[i + 1 : j]
                if body.startswith("!"):
                    body = "^" + body[1:]
                out.append("[" + body.replace("\\", "\\\\") + "]")
                i = j
        elif c == "{":
            depth += 1
            out.append("(?:")
        elif c == "}" and depth > 0:
            depth -= 1
            out.append(")")
        elif c == "," and depth > 0:
            out.append("|")
        elif c == "\\" and i + 1 < n:
            i += 1
            out.append(_re.escape(pat[i]))
        else:
            out.append(_re.escape(c))
        i += 1
    return "(?s)^" + "".join(out) + "$"


def register_glob(I):
    intr = I.intrinsic

    @intr("globset::Glob::new")
    def _glob_new(I, a, cc):
        return ok(Opaque("glob", deref_all(a[0])))

    @intr("globset::Glob::compile_matcher")
    def _compile(I, a, cc):
        return Opaque("globmatcher", deref_all(a[0]).v)

    @intr("globset::GlobMatcher::is_match")
    def _is_match(I, a, cc):
        m = deref_all(a[0])
        s = deref_all(a[1])
        hook = getattr(I, "glob_oracle", None)
        if hook is not None:
            return hook(m.v, s)
        if isinstance(m.v, str) and type(s) is str:
            return _re.match(glob_to_regex(m.v), s) is not None
        raise Unsupported("glob match on symbolic operands")


# --------------------------------------------------------------------------------------------------- regex replace


def _rust_expand(m, rep):
    """regex crate replacement syntax: $N, $name, ${name}, $$."""
    out = []
    i = 0
    n = len(rep)
    while i < n:
        c = rep[i]
        if c != "$":
            out.append(c)
            i += 1
            continue
        if i + 1 < n and rep[i + 1] == "$":
            out.append("$")
            i += 2
            continue
        if i + 1 < n and rep[i + 1] == "{":
            j = rep.find("}", i + 2)
            if j < 0:
                out.append("$")
                i += 1
                continue
            name = rep[i + 2 : j]
            i = j + 1
        else:
            mm = _re.match(r"[0-9A-Za-z_]+", rep[i + 1 :])
            if not mm:
                out.append("$")
                i += 1
                continue
            name = mm.group(0)
            i += 1 + len(name)
        try:
            g = m.group(int(name)) if name.isdigit() else m.group(name)
        except (IndexError, KeyError, _re.error):
            g = None
        out.append(g or "")
    return "".join(out)


error_types = (_re.error, KeyError)


def register_regex_replace(I):
    @I.intrinsic("regex::Regex::replace", "regex::Regex::replace_all", "regex::Regex::replacen")
    def _replace(I, a, cc):
        rx = deref_all(a[0]).v
        s = deref_all(a[1])
        rep = deref_all(a[-1])
        if not isinstance(rep, str):
            raise Unsupported("regex replace with a non-string replacer")
        count = 0 if cc.norm.endswith("replace_all") else 1
        if cc.norm.endswith("replacen"):
            count = a[2]
        return rx.sub(lambda m: _rust_expand(m, rep), s, count=count)

    @I.pattern(r"^<std::borrow::Cow as .*>::.*$", r"^std::borrow::Cow::into_owned$", r"^std::borrow::Cow::to_string$")
    def _cow(I, a, cc):
        return deref_all(a[0])
