"""Model of serde / serde_json / serde_yaml: JSON values, typed (de)serialisation driven by the
struct and enum declarations read from /repo's sources (derives assumed faithful to the declared
fields; only `default` and `rename_all = "snake_case"` attributes occur in the tree)."""
import json as _json
import re
import z3

from .values import *
from .interp import as_list, INT_RANGES
from .index import short_type
from .mirparse import split_top
from .intr_core import display, default_for, json_text, struct_eq, SymStr
from .intr_coll import key_of

ALIASES = {"JsonValue": "Value", "serde_json::Value": "Value", "JsonMap": "Map"}


def jnull():
    return Enum("Value", 0, [], "Null")


def jbool(b):
    return Enum("Value", 1, [b], "Bool")


def jnum(n):
    return Enum("Value", 2, [JNum(n)], "Number")


def jstr(s):
    return Enum("Value", 3, [s], "String")


def jarr(items):
    return Enum("Value", 4, [VecV(list(items))], "Array")


def jobj(pairs):
    m = MapV(True, "Map")
    for k, v in pairs:
        m.d[k] = KeyBox(k, v)
    return Enum("Value", 5, [m], "Object")


def py_to_json(x):
    if x is None:
        return jnull()
    if isinstance(x, bool):
        return jbool(x)
    if isinstance(x, (int, float)):
        return jnum(x)
    if isinstance(x, str):
        return jstr(x)
    if isinstance(x, list):
        return jarr([py_to_json(e) for e in x])
    if isinstance(x, dict):
        return jobj([(k, py_to_json(v)) for k, v in x.items()])
    if is_sym(x):
        if z3.is_bool(x):
            return jbool(x)
        return jnum(x)
    if isinstance(x, Enum) and x.ty == "Value":
        return x
    raise Unsupported("py_to_json %r" % (x,))


def json_to_py(v):
    v = deref_all(v) if isinstance(v, (Ptr, ValPtr, MapSlot)) else v
    if v.d == 0:
        return None
    if v.d == 1:
        return v.f[0]
    if v.d == 2:
        return v.f[0].n
    if v.d == 3:
        return v.f[0]
    if v.d == 4:
        return [json_to_py(e) for e in v.f[0].a]
    m = v.f[0]
    return {k: json_to_py(m.d[k].v) for k in m.keys()}


def snake(name):
    out = []
    for i, c in enumerate(name):
        if c.isupper() and i > 0:
            out.append("_")
        out.append(c.lower())
    return "".join(out)


class SerdeError(Exception):
    pass


def to_json(I, v, hint=None):
    """Serialize a run-time value to a JSON Value."""
    if isinstance(v, (Ptr, ValPtr, MapSlot, BoxV)):
        return to_json(I, deref(v), hint)
    if isinstance(v, Enum):
        if v.ty == "Value":
            return clone_value(v)
        if v.ty == "Option":
            return to_json(I, v.f[0]) if v.d == 1 else jnull()
        # repo enum
        vs = I.p.src.enum_def(v.ty)
        if vs is None:
            raise Unsupported("serialize enum " + v.ty)
        attrs = " ".join(I.p.src.enum_attrs.get(v.ty, []))
        if "Serialize_repr" in attrs:
            return jnum(v.d)
        if is_sym(v.d):
            raise Unsupported("serialize enum with symbolic discriminant")
        for name, d, payload in vs:
            if d == v.d:
                vn = snake(name) if "snake_case" in attrs else name
                if not payload:
                    return jstr(vn)
                if isinstance(payload, list) and len(payload) == 1:
                    return jobj([(vn, to_json(I, v.f[0]))])
                if isinstance(payload, list):
                    return jobj([(vn, jarr([to_json(I, x) for x in v.f]))])
                return jobj([(vn, jobj([(fn, to_json(I, x)) for fn, x in zip(payload.keys(), v.f)]))])
        raise Unsupported("serialize enum value %r" % (v,))
    if isinstance(v, bool):
        return jbool(v)
    if isinstance(v, (int, float)):
        return jnum(v)
    if isinstance(v, str):
        return jstr(v)
    if isinstance(v, Ser):
        return jstr(v)
    if is_sym(v):
        return jbool(v) if z3.is_bool(v) else jnum(v)
    if isinstance(v, JNum):
        return Enum("Value", 2, [v], "Number")
    if isinstance(v, (VecV, SliceV)):
        a, lo, hi = as_list(v)
        return jarr([to_json(I, x) for x in a[lo:hi]])
    if isinstance(v, MapV):
        if v.ty in ("HashSet", "BTreeSet"):
            return jarr([to_json(I, v.d[k].k) for k in v.keys()])
        pairs = []
        for k in v.keys():
            kb = v.d[k]
            kk = kb.k
            if not isinstance(kk, str):
                kj = to_json(I, kk)
                if kj.d != 3:
                    raise Unsupported("non-string map key in serialisation")
                kk = kj.f[0]
            pairs.append((kk, to_json(I, kb.v)))
        return jobj(pairs)
    if v is UNIT or v == ():
        return jnull()
    if isinstance(v, Agg):
        st = short_type(v.ty) if v.ty else ""
        if st == "tuple":
            return jarr([to_json(I, x) for x in v.f])
        if st == "Vars":
            return to_json(I, v.f[0])
        if st == "TimeoutLimit":
            return jstr(display(I, v))
        fields = I.p.src.struct_fields(v.ty)
        if fields is None:
            raise Unsupported("serialize struct " + str(v.ty))
        if len(fields) == 1 and fields[0][0] == "0":
            return to_json(I, v.f[0])  # newtype
        if not fields:
            return jnull()
        pairs = []
        for (fn, ft, fa), x in zip(fields, v.f):
            sa = _serde_attr(fa)
            # field attributes of serde's derive that change what is written
            if re.search(r"\bskip\b(?!_)", sa) or re.search(r"\bskip_serializing\b(?!_)", sa):
                continue
            m = re.search(r'skip_serializing_if\s*=\s*"([^"]+)"', sa)
            if m and _skip_if(I, m.group(1), x):
                continue
            if "flatten" in sa or "serialize_with" in sa or re.search(r"\bwith\s*=", sa):
                raise Unsupported("serde field attribute on %s.%s: %s" % (st, fn, sa))
            pairs.append((_renamed(sa, fn, "serialize"), to_json(I, x)))
        return jobj(pairs)
    if isinstance(v, Char):
        return jstr(v.c)
    raise Unsupported("serialize %r" % (v,))


def from_json(I, jv, ty):
    """Deserialize JSON Value jv into a value of the Rust type `ty` (text).  Raises SerdeError."""
    jv = deref_all(jv) if isinstance(jv, (Ptr, ValPtr, MapSlot)) else jv
    t = ty.strip()
    st = short_type(t)
    st = ALIASES.get(st, st)
    if st.startswith("&"):
        st = st[1:]
    if st == "Value":
        return clone_value(jv)
    if st in ("String", "str"):
        if jv.d == 3:
            return jv.f[0]
        raise SerdeError("expected a string")
    if st == "bool":
        if jv.d == 1:
            return jv.f[0]
        raise SerdeError("expected a boolean")
    if st in INT_RANGES:
        if jv.d == 2:
            n = jv.f[0].n
            if isinstance(n, float):
                raise SerdeError("expected an integer")
            lo, hi = INT_RANGES[st]
            if is_sym(n):
                if I.truth(z3.And(n >= lo, n <= hi), "from_json range"):
                    return n
                raise SerdeError("integer out of range")
            if lo <= n <= hi:
                return n
            raise SerdeError("integer out of range")
        raise SerdeError("expected an integer")
    if st in ("f64", "f32"):
        if jv.d == 2:
            n = jv.f[0].n
            return float(n) if isinstance(n, int) else n
        raise SerdeError("expected a float")
    if st == "()":
        if jv.d == 0:
            return UNIT
        raise SerdeError("expected null")
    if st.startswith("Option<"):
        if jv.d == 0:
            return none()
        return some(from_json(I, jv, _inner(t)))
    if st.startswith("Vec<"):
        if jv.d == 4:
            it = _inner(t)
            return VecV([from_json(I, e, it) for e in jv.f[0].a])
        raise SerdeError("expected an array")
    if st.startswith("Box<"):
        return BoxV(from_json(I, jv, _inner(t)), "box")
    if st.split("<")[0] in ("HashMap", "BTreeMap", "Map"):
        if jv.d != 5:
            raise SerdeError("expected a map")
        head = st.split("<")[0]
        m = MapV(head != "HashMap", head)
        if head == "Map":
            kt, vt = "String", "Value"
        else:
            kt, vt = split_top(t[t.index("<") + 1 : -1])[:2]
        src = jv.f[0]
        for k in src.keys():
            kv = from_json(I, jstr(src.d[k].k), kt)
            m.d[key_of(I, kv)] = KeyBox(kv, from_json(I, src.d[k].v, vt))
        return m
    if st == "Vars":
        if jv.d != 5:
            raise SerdeError("expected a map")
        return Agg("model::vars::Vars", [clone_value(jv.f[0])])
    if st == "TimeoutLimit":
        if jv.d != 3:
            raise SerdeError("expected a string")
        r = I.call_raw("model::act::timeout::TimeoutLimit::parse", [jv.f[0]], None)
        if r.d == 0:
            return r.f[0]
        raise SerdeError("timeout parse")
    if st.startswith("(") and st.endswith(")"):
        parts = split_top(t[1:-1])
        if jv.d != 4 or len(jv.f[0].a) != len(parts):
            raise SerdeError("expected a tuple")
        return Agg("tuple", [from_json(I, e, p) for e, p in zip(jv.f[0].a, parts)])
    # repo enum
    vs = I.p.src.enum_def(t) if not st.startswith(("(", "[")) else None
    if vs is not None:
        attrs = " ".join(I.p.src.enum_attrs.get(st, []))
        if "Deserialize_repr" in attrs:
            if jv.d == 2:
                n = jv.f[0].n
                if is_sym(n):
                    ds = [d for _, d, _ in vs]
                    i = I.branch([n == d for d in ds] + [z3.And(*[n != d for d in ds])], "repr enum")
                    if i < len(ds):
                        return Enum(st, ds[i], [], vs[i][0])
                    raise SerdeError("invalid enum value")
                for name, d, payload in vs:
                    if d == n:
                        return Enum(st, d, [], name)
            raise SerdeError("invalid enum repr")
        if jv.d == 3:
            for name, d, payload in vs:
                vn = snake(name) if "snake_case" in attrs else name
                if vn == jv.f[0] and not payload:
                    return Enum(st, d, [], name)
            raise SerdeError("unknown variant " + str(jv.f[0]))
        if jv.d == 5 and len(jv.f[0].d) == 1:
            k = jv.f[0].keys()[0]
            inner = jv.f[0].d[k].v
            for name, d, payload in vs:
                vn = snake(name) if "snake_case" in attrs else name
                if vn == k and payload:
                    if isinstance(payload, list) and len(payload) == 1:
                        return Enum(st, d, [from_json(I, inner, payload[0])], name)
                    if isinstance(payload, list):
                        return Enum(st, d, [from_json(I, e, p) for e, p in zip(inner.f[0].a, payload)], name)
                    return Enum(st, d, [_field(I, inner, fn, ft, []) for fn, ft in payload.items()], name)
        raise SerdeError("invalid enum")
    fields = I.p.src.struct_fields(t)
    if fields is not None:
        st = _full(I, t)
        if len(fields) == 1 and fields[0][0] == "0":
            return Agg(st, [from_json(I, jv, fields[0][1])])
        if not fields:
            return Agg(st, [])
        if jv.d != 5:
            raise SerdeError("expected a map for struct " + st)
        sattrs = " ".join(I.p.src.struct_attrs.get(st.split("::")[-1], []))
        return Agg(st, [_field(I, jv, fn, ft, fa, "serde(default)" in sattrs) for fn, ft, fa in fields])
    raise Unsupported("deserialize into " + t)


def _full(I, t):
    from .index import strip_generics
    return strip_generics(t.strip())


def _inner(t):
    return t[t.index("<") + 1 : t.rindex(">")]


def _serde_attr(fattrs):
    return " ".join(a for a in (fattrs or []) if "serde" in a)


def _renamed(sa, fn, direction):
    m = re.search(r'rename\s*=\s*"([^"]+)"', sa) or re.search(r'rename\s*\(\s*[^)]*%s\s*=\s*"([^"]+)"' % direction, sa)
    return m.group(1) if m else fn


def _skip_if(I, pred, x):
    """skip_serializing_if predicates on plain containers; anything else is not modelled"""
    x = deref(x) if isinstance(x, (Ptr, ValPtr, MapSlot, BoxV)) else x
    name = pred.split("::")[-1]
    if name == "is_none" and isinstance(x, Enum) and x.ty == "Option":
        return x.d == 0
    if name == "is_empty":
        if isinstance(x, VecV):
            return len(x.a) == 0
        if isinstance(x, str):
            return x == ""
        if hasattr(x, "keys"):
            return len(list(x.keys())) == 0
    raise Unsupported("skip_serializing_if predicate " + pred)


def _field(I, jv, fn, ft, fattrs, struct_default=False):
    m = jv.f[0]
    sa = _serde_attr(fattrs)
    if re.search(r"\bskip\b(?!_)", sa) or re.search(r"\bskip_deserializing\b", sa):
        return default_for(I, _canon(ft), None)
    if "flatten" in sa or "deserialize_with" in sa or re.search(r"\bwith\s*=", sa):
        raise Unsupported("serde field attribute on %s: %s" % (fn, sa))
    kb = m.d.get(_renamed(sa, fn, "deserialize"))
    if kb is None:
        for al in re.findall(r'alias\s*=\s*"([^"]+)"', sa):
            kb = kb or m.d.get(al)
    if kb is None:
        if any("default" in a for a in fattrs) or struct_default:
            return default_for(I, _canon(ft), None)
        if short_type(ft).startswith("Option<"):
            return none()
        raise SerdeError("missing field `%s`" % fn)
    return from_json(I, kb.v, _canon(ft))


def _canon(ft):
    ft = ft.strip().rstrip(",")
    ft = re.sub(r"\bJsonValue\b", "serde_json::Value", ft)
    return ft


def text_to_json(s):
    return py_to_json(_json.loads(s))


def serde_err(msg):
    return Opaque("serde_error", msg)


def register(I):
    intr = I.intrinsic
    pat = I.pattern

    @intr("serde_json::to_value", "serde_json::value::to_value")
    def _to_value(I, a, cc):
        return ok(to_json(I, a[0]))

    @intr("serde_json::from_value", "serde_json::value::from_value")
    def _from_value(I, a, cc):
        g = cc.generics()
        try:
            return ok(from_json(I, a[0], g[0]))
        except SerdeError as e:
            return err(serde_err(str(e)))

    @intr("serde_json::to_string", "serde_json::to_string_pretty", "serde_yaml::to_string", "serde_json::to_vec")
    def _to_string(I, a, cc):
        return ok(Ser(to_json(I, a[0]), "yaml" if "yaml" in cc.norm else "json"))

    @intr("serde_json::from_str", "serde_yaml::from_str", "serde_json::from_slice")
    def _from_str(I, a, cc):
        g = cc.generics()
        s = deref_all(a[0])
        if isinstance(s, Ser):
            jv = s.v
        elif isinstance(s, str):
            try:
                jv = text_to_json(s)
            except ValueError as e:
                return err(serde_err(str(e)))
        else:
            raise Unsupported("from_str of %r" % (s,))
        try:
            return ok(from_json(I, jv, g[-1]))
        except SerdeError as e:
            return err(serde_err(str(e)))

    @pat(r"^<.* as serde::Deserialize>::deserialize$", r"^<.* as config::_::_serde::Deserialize>::deserialize$")
    def _deserialize(I, a, cc):
        # deserializer argument: a JSON Value (serde_json::Value implements Deserializer)
        d = a[0]
        if isinstance(d, Opaque) and d.tag == "deserializer":
            d = d.v
        try:
            return ok(from_json(I, d, cc.self_ty()))
        except SerdeError as e:
            return err(serde_err(str(e)))

    @pat(r"^<serde_json::Error as .*>::.*$", r"^serde_json::Error::.*$")
    def _serr(I, a, cc):
        if cc.norm.endswith("to_string") or cc.norm.endswith("fmt"):
            return "serde error"
        raise Unsupported(cc.norm)

    # ------------------------------------------------------------------ Value inspection
    V = "serde_json::Value::"

    @intr(V + "is_null")
    def _is_null(I, a, cc):
        return deref_all(a[0]).d == 0

    @intr(V + "is_string")
    def _is_string(I, a, cc):
        return deref_all(a[0]).d == 3

    @intr(V + "is_object")
    def _is_object(I, a, cc):
        return deref_all(a[0]).d == 5

    @intr(V + "is_array")
    def _is_array(I, a, cc):
        return deref_all(a[0]).d == 4

    @intr(V + "is_number")
    def _is_number(I, a, cc):
        return deref_all(a[0]).d == 2

    @intr(V + "is_boolean")
    def _is_boolean(I, a, cc):
        return deref_all(a[0]).d == 1

    @intr(V + "as_str")
    def _as_str(I, a, cc):
        v = deref_all(a[0])
        return some(v.f[0]) if v.d == 3 else none()

    @intr(V + "as_bool")
    def _as_bool(I, a, cc):
        v = deref_all(a[0])
        return some(v.f[0]) if v.d == 1 else none()

    @intr(V + "as_array", V + "as_array_mut")
    def _as_array(I, a, cc):
        v = deref_all(a[0])
        return some(Ptr(v.f, 0)) if v.d == 4 else none()

    @intr(V + "as_object", V + "as_object_mut")
    def _as_object(I, a, cc):
        v = deref_all(a[0])
        return some(Ptr(v.f, 0)) if v.d == 5 else none()

    def num_as(I, n, kind):
        if isinstance(n, float):
            return some(n) if kind == "f64" else none()
        if kind == "f64":
            if is_sym(n):
                return some(z3.ToReal(n))
            return some(float(n))
        lo, hi = INT_RANGES[kind]
        if is_sym(n):
            return some(n) if I.truth(z3.And(n >= lo, n <= hi), "as_" + kind) else none()
        return some(n) if lo <= n <= hi else none()

    @intr(V + "as_i64", V + "as_u64", V + "as_f64")
    def _v_as_num(I, a, cc):
        v = deref_all(a[0])
        if v.d != 2:
            return none()
        return num_as(I, v.f[0].n, cc.norm[-3:])

    @intr(V + "is_i64", V + "is_u64", V + "is_f64")
    def _v_is_num(I, a, cc):
        v = deref_all(a[0])
        if v.d != 2:
            return False
        return _n_is(I, v.f[0].n, cc.norm[-3:])

    def _n_is(I, n, kind):
        # serde_json::Number: PosInt(u64) | NegInt(i64) | Float.  is_i64: PosInt <= i64::MAX or NegInt;
        # is_u64: PosInt; is_f64: Float
        if isinstance(n, float):
            return kind == "f64"
        if kind == "f64":
            return False
        if kind == "i64":
            c = n <= 2**63 - 1
        else:
            c = n >= 0
        return I.truth(c, "is_" + kind) if is_sym(c) else c

    N = "serde_json::Number::"

    @intr(N + "is_i64", N + "is_u64", N + "is_f64")
    def _n_is_(I, a, cc):
        return _n_is(I, deref_all(a[0]).n, cc.norm[-3:])

    @intr(N + "as_i64", N + "as_u64", N + "as_f64")
    def _n_as_(I, a, cc):
        return num_as(I, deref_all(a[0]).n, cc.norm[-3:])

    @intr(N + "from_f64")
    def _n_from_f64(I, a, cc):
        x = a[0]
        if isinstance(x, float) and (x != x or x in (float("inf"), float("-inf"))):
            return none()
        return some(JNum(x))

    @intr(V + "get", V + "get_mut")
    def _v_get(I, a, cc):
        v = deref_all(a[0])
        k = a[1]
        if isinstance(k, (Ptr, ValPtr)):
            k = deref_all(k)
        if isinstance(k, str):
            if v.d != 5:
                return none()
            kb = v.f[0].d.get(k)
            from .intr_coll import _KBView
            return some(Ptr(_KBView(kb), 0)) if kb is not None else none()
        if v.d != 4 or k >= len(v.f[0].a):
            return none()
        return some(Ptr(v.f[0].a, k))

    @intr(V + "take")
    def _v_take(I, a, cc):
        p = a[0]
        v = p.get()
        p.set(jnull())
        return v

    @pat(r"^<serde_json::Value as std::ops::Index>::index$")
    def _v_index(I, a, cc):
        r = _v_get(I, a, cc)
        if r.d == 1:
            return r.f[0]
        return Ptr([jnull()], 0)

    @pat(r"^<serde_json::Value as std::fmt::Display>::fmt$")
    def _v_display(I, a, cc):
        fm = deref(a[1])
        fm.parts.append(json_text(I, deref_all(a[0])))
        return ok(UNIT)

    @pat(r"^<serde_json::Number as std::fmt::Display>::fmt$")
    def _n_display(I, a, cc):
        fm = deref(a[1])
        fm.parts.append(display(I, deref_all(a[0]).n))
        return ok(UNIT)

    @pat(r"^<serde_json::Value as std::convert::From>::from$")
    def _v_from(I, a, cc):
        return to_json(I, a[0])

    @pat(r"^<serde_json::Number as std::convert::From>::from$")
    def _n_from(I, a, cc):
        return JNum(a[0])

    @pat(r"^<serde_json::Value as std::str::FromStr>::from_str$")
    def _v_from_str(I, a, cc):
        try:
            return ok(text_to_json(deref_all(a[0])))
        except ValueError as e:
            return err(serde_err(str(e)))

    @pat(r"^<serde_json::Map as serde::Deserialize>::deserialize$", r"^<serde_json::Map as config::_::_serde::Deserialize>::deserialize$")
    def _map_deser(I, a, cc):
        d = a[0]
        d = deref_all(d) if isinstance(d, (Ptr, ValPtr)) else d
        if isinstance(d, Enum) and d.ty == "Value" and d.d == 5:
            return ok(clone_value(d.f[0]))
        return err(serde_err("expected a map"))

    @pat(r"^<serde_json::Map as (serde|config::_::_serde)::Serialize>::serialize$")
    def _map_ser(I, a, cc):
        raise Unsupported("Map::serialize with explicit serializer")
