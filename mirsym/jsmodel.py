"""A small model of the JavaScript fragment used by the generated workflows.

Only the productions below are modelled (everything else is `Unsupported`, never guessed):
  expr   := or ; or := and ('||' and)* ; and := cmp ('&&' cmp)* ;
  cmp    := add (('=='|'==='|'!='|'!=='|'<'|'<='|'>'|'>=') add)?
  add    := unary (('+'|'-') unary)* ; unary := '!' unary | atom
  atom   := int | 'true' | 'false' | 'null' | string | ident | '(' expr ')' | object | array
          | '$get(' string ')' | '$set(' string ',' expr ')' | '$env.' ident
  script := '(()=>{' stmt* '})()' ; stmt := 'return' expr ';'? | expr ';'
Values are JSON values whose leaves may be z3 terms.
"""
import re
import z3

from .values import *
from .intr_serde import jnull, jbool, jnum, jstr, jarr, jobj, py_to_json

TOK = re.compile(r"\s*(===|!==|==|!=|<=|>=|&&|\|\||=>|[-+!<>(){}\[\],:;.=]|\d+|\"(?:[^\"\\]|\\.)*\"|'(?:[^'\\]|\\.)*'|[A-Za-z_$][\w$]*)")


class JsException(Exception):
    pass


class JsEval:
    def __init__(self, I, lookup, setter=None, env_lookup=None, env_setter=None, proc_setter=None):
        self.I = I
        self.lookup = lookup  # name -> JSON value or None (undefined)
        self.setter = setter
        self.env_lookup = env_lookup
        self.env_setter = env_setter
        self.proc_setter = proc_setter

    def tokenize(self, s):
        out = []
        i = 0
        s = s.strip()
        while i < len(s):
            m = TOK.match(s, i)
            if not m:
                if s[i:].strip() == "":
                    break
                raise Unsupported("js model: cannot tokenize %r" % s[i : i + 30])
            out.append(m.group(1))
            i = m.end()
        return out

    def run(self, src):
        self.t = self.tokenize(src)
        self.i = 0
        # arrow-function script of the code package
        if self.t[:5] == ["(", "(", ")", "=>", "{"]:
            self.i = 5
            ret = jnull()
            returned = False
            while self.peek() != "}":
                if self.peek() == "return":
                    self.i += 1
                    v = self.expr()
                    if not returned:
                        ret = v
                        returned = True
                else:
                    v = self.expr()
                if self.peek() == ";":
                    self.i += 1
                if returned:
                    depth = 0
                    while not (self.peek() == "}" and depth == 0):
                        if self.peek() is None:
                            raise Unsupported("js model: unterminated script")
                        if self.peek() == "{":
                            depth += 1
                        elif self.peek() == "}":
                            depth -= 1
                        self.i += 1
            self.expect("}")
            self.expect(")")
            self.expect("(")
            self.expect(")")
            return ret
        v = self.program(top=True)
        if self.peek() is not None:
            raise JsException("SyntaxError: unexpected token %s" % self.peek())
        return v

    def program(self, top=False):
        """statement*  — a `{` at statement start opens a block (this is how `{{ expr }}` templates reach the
        script engine: two nested blocks whose completion value is the value of expr)."""
        v = jnull()
        while self.peek() is not None and self.peek() != "}":
            if self.peek() == "{":
                self.i += 1
                v = self.program()
                if self.peek() != "}":
                    raise JsException("SyntaxError: unterminated block")
                self.i += 1
                continue
            if self.peek() == ";":
                self.i += 1
                continue
            v = self.expr()
            nxt = self.peek()
            if nxt == ";":
                self.i += 1
            elif nxt is None or nxt == "}":
                pass
            elif nxt == ":":
                raise Unsupported("js model: labelled statement / object literal at statement start")
            else:
                # two statements on one line without a separator
                raise JsException("SyntaxError: unexpected token %s" % nxt)
        return v

    def peek(self):
        return self.t[self.i] if self.i < len(self.t) else None

    def expect(self, tok):
        if self.peek() != tok:
            raise Unsupported("js model: expected %r got %r" % (tok, self.peek()))
        self.i += 1

    def expr(self):
        return self.p_or()

    def p_or(self):
        v = self.p_and()
        while self.peek() == "||":
            self.i += 1
            w = self.p_and()
            v = self.logic(v, w, True)
        return v

    def p_and(self):
        v = self.p_cmp()
        while self.peek() == "&&":
            self.i += 1
            w = self.p_cmp()
            v = self.logic(v, w, False)
        return v

    def truthy(self, v):
        if v.d == 0:
            return False
        if v.d == 1:
            return v.f[0]
        if v.d == 2:
            n = v.f[0].n
            return n != 0
        if v.d == 3:
            return len(v.f[0]) > 0
        return True

    def logic(self, a, b, is_or):
        # boolean operands only (JS returns operands, we restrict to bools)
        if a.d != 1 or b.d != 1:
            raise Unsupported("js model: logic on non-boolean")
        x, y = a.f[0], b.f[0]
        if is_sym(x) or is_sym(y):
            x = z3.BoolVal(x) if isinstance(x, bool) else x
            y = z3.BoolVal(y) if isinstance(y, bool) else y
            return jbool(z3.simplify(z3.Or(x, y) if is_or else z3.And(x, y)))
        return jbool((x or y) if is_or else (x and y))

    def p_cmp(self):
        a = self.p_add()
        op = self.peek()
        if op in ("==", "===", "!=", "!==", "<", "<=", ">", ">="):
            self.i += 1
            b = self.p_add()
            return self.compare(op, a, b)
        return a

    def compare(self, op, a, b):
        if op in ("==", "===", "!=", "!=="):
            if a.d != b.d:
                r = False
            elif a.d in (0,):
                r = True
            elif a.d == 2:
                x, y = a.f[0].n, b.f[0].n
                r = x == y
            elif a.d in (1, 3):
                r = a.f[0] == b.f[0]
            else:
                raise Unsupported("js model: equality on objects")
            if op.startswith("!"):
                r = z3.Not(r) if is_sym(r) else (not r)
            return jbool(z3.simplify(r) if is_sym(r) else r)
        if a.d == 0 or b.d == 0:
            # null compares as 0 in JS relational operators; undefined handled by lookup
            a = jnum(0) if a.d == 0 else a
            b = jnum(0) if b.d == 0 else b
        if a.d != 2 or b.d != 2:
            raise Unsupported("js model: relational operator on non-numbers")
        x, y = a.f[0].n, b.f[0].n
        r = {"<": lambda: x < y, "<=": lambda: x <= y, ">": lambda: x > y, ">=": lambda: x >= y}[op]()
        return jbool(z3.simplify(r) if is_sym(r) else r)

    def p_add(self):
        v = self.p_unary()
        while self.peek() in ("+", "-"):
            op = self.peek()
            self.i += 1
            w = self.p_unary()
            if v.d == 2 and w.d == 2:
                v = jnum(v.f[0].n + w.f[0].n if op == "+" else v.f[0].n - w.f[0].n)
            elif op == "+" and v.d == 3 and w.d == 3:
                v = jstr(v.f[0] + w.f[0])
            else:
                raise Unsupported("js model: arithmetic on non-numbers")
        return v

    def p_unary(self):
        if self.peek() == "!":
            self.i += 1
            v = self.p_unary()
            t = self.truthy(v)
            return jbool(z3.simplify(z3.Not(t)) if is_sym(t) else (not t))
        if self.peek() == "-":
            self.i += 1
            v = self.p_unary()
            return jnum(-v.f[0].n)
        return self.p_atom()

    def p_atom(self):
        t = self.peek()
        if t is None:
            raise Unsupported("js model: unexpected end")
        self.i += 1
        if t.isdigit():
            return jnum(int(t))
        if t == "true":
            return jbool(True)
        if t == "false":
            return jbool(False)
        if t == "null" or t == "undefined":
            return jnull()
        if t[0] in "\"'":
            return jstr(t[1:-1])
        if t == "(":
            v = self.expr()
            self.expect(")")
            return v
        if t == "{":
            pairs = []
            while self.peek() != "}":
                k = self.peek()
                self.i += 1
                if k[0] in "\"'":
                    k = k[1:-1]
                if self.peek() == ":":
                    self.i += 1
                    v = self.expr()
                else:
                    v = self.var(k)
                pairs.append((k, v))
                if self.peek() == ",":
                    self.i += 1
            self.expect("}")
            return jobj(pairs)
        if t == "[":
            items = []
            while self.peek() != "]":
                items.append(self.expr())
                if self.peek() == ",":
                    self.i += 1
            self.expect("]")
            return jarr(items)
        if t == "$get":
            self.expect("(")
            name = self.peek()[1:-1]
            self.i += 1
            self.expect(")")
            v = self.lookup(name, True)
            return v if v is not None else jnull()
        if t == "$set":
            self.expect("(")
            name = self.peek()[1:-1]
            self.i += 1
            self.expect(",")
            v = self.expr()
            self.expect(")")
            if self.setter is None:
                raise Unsupported("js model: $set without setter")
            self.setter(name, v)
            return jnull()
        if t == "$env":
            self.expect(".")
            name = self.peek()
            self.i += 1
            if self.peek() == "=":
                self.i += 1
                v = self.expr()
                if self.env_setter is None:
                    raise Unsupported("js model: $env assignment without setter")
                self.env_setter(name, v)
                return v
            v = self.env_lookup(name) if self.env_lookup else None
            return v if v is not None else jnull()
        if t == "$set_process_var":
            self.expect("(")
            name = self.peek()[1:-1]
            self.i += 1
            self.expect(",")
            v = self.expr()
            self.expect(")")
            if self.proc_setter is None:
                raise Unsupported("js model: $set_process_var without setter")
            self.proc_setter(name, v)
            return jnull()
        if t.startswith("$"):
            raise Unsupported("js model: unmodelled global %s" % t)
        if re.match(r"[A-Za-z_$][\w$]*$", t):
            return self.var(t)
        raise Unsupported("js model: token %r" % t)

    def var(self, name):
        v = self.lookup(name, False)
        if v is None:
            raise JsException("%s is not defined" % name)
        return v
