"""Parser for the textual MIR that `rustc +nightly -Zunpretty=mir` prints.

Only syntax, no semantics.  Items are split eagerly (cheap, line based); statements and
terminators are parsed lazily on first execution and cached on the block.
"""
import re
import sys

sys.setrecursionlimit(100000)

# --------------------------------------------------------------------------- scanning helpers

_CHAR_RE = re.compile(r"'(\\u\{[0-9a-fA-F]+\}|\\.|[^\\'])'")
OPEN = "([{<"
CLOSE = ")]}>"
MATCH = {")": "(", "]": "[", "}": "{", ">": "<"}


def skip_string(s, i):
    """s[i] == '"'; return index just past the closing quote."""
    i += 1
    n = len(s)
    while i < n:
        c = s[i]
        if c == "\\":
            i += 2
            continue
        if c == '"':
            return i + 1
        i += 1
    raise ValueError("unterminated string in: " + s[:120])


def scan(s, i, stops, depth0=True):
    """Scan from i until one of the strings in `stops` is found at bracket depth 0.
    Returns (index, stop) or (len(s), None)."""
    n = len(s)
    depth = 0
    while i < n:
        c = s[i]
        if c == '"':
            i = skip_string(s, i)
            continue
        if c == "'":
            m = _CHAR_RE.match(s, i)
            if m:
                i = m.end()
                continue
            i += 1
            continue
        if c == "-" and i + 1 < n and s[i + 1] == ">":
            if depth == 0:
                for st in stops:
                    if s.startswith(st, i):
                        return i, st
            i += 2
            continue
        if c == "=" and i + 1 < n and s[i + 1] == ">":
            i += 2
            continue
        if depth == 0:
            for st in stops:
                if s.startswith(st, i):
                    return i, st
        if c in OPEN:
            depth += 1
        elif c in CLOSE:
            depth -= 1
            if depth < 0:
                return i, None
        i += 1
    return n, None


def match_close(s, i):
    """s[i] is an opening bracket; return index of its matching close."""
    n = len(s)
    depth = 0
    while i < n:
        c = s[i]
        if c == '"':
            i = skip_string(s, i)
            continue
        if c == "'":
            m = _CHAR_RE.match(s, i)
            if m:
                i = m.end()
                continue
            i += 1
            continue
        if c in "-=" and i + 1 < n and s[i + 1] == ">":
            i += 2
            continue
        if c in OPEN:
            depth += 1
        elif c in CLOSE:
            depth -= 1
            if depth == 0:
                return i
        i += 1
    raise ValueError("unbalanced: " + s[:200])


def split_top(s, sep=","):
    """Split s at top-level separators."""
    out = []
    i = 0
    start = 0
    n = len(s)
    while True:
        j, st = scan(s, i, (sep,))
        if st is None:
            if j < n:  # stray closer; treat as text
                i = j + 1
                continue
            tail = s[start:].strip()
            if tail:
                out.append(tail)
            return out
        out.append(s[start:j].strip())
        i = j + len(sep)
        start = i


# --------------------------------------------------------------------------- AST (plain tuples)
# Place:   ('place', local:int, projs:tuple)   proj: ('deref',) ('field',n,ty) ('downcast',name)
#                                               ('index',local) ('cindex',n,min_len,from_end) ('subslice',a,b,from_end)
# Operand: ('copy',place) ('move',place) ('const',text,ty_or_None) ('fn',path)
# Rvalue:  ('use',op) ('ref',mut,place) ('rawptr',mut,place) ('bin',name,a,b) ('un',name,a)
#          ('discr',place) ('len',place) ('cast',op,ty,kind) ('agg_tuple',ops) ('agg_array',ops)
#          ('repeat',op,n) ('agg_adt',path,variant,fields{name:op}|[ops],generics) ('agg_closure',path,fields)
#          ('cfd',place) ('box',op,ty) ('nullary',name,ty)

BINOPS = {
    "Add", "Sub", "Mul", "Div", "Rem", "BitXor", "BitAnd", "BitOr", "Shl", "Shr", "Eq", "Lt", "Le",
    "Ne", "Ge", "Gt", "Offset", "Cmp", "AddWithOverflow", "SubWithOverflow", "MulWithOverflow",
    "AddUnchecked", "SubUnchecked", "MulUnchecked", "ShlUnchecked", "ShrUnchecked",
}
UNOPS = {"Not", "Neg", "PtrMetadata"}

_LOCAL_RE = re.compile(r"_(\d+)")


def parse_place(s):
    s = s.strip()
    p, i = _place(s, 0)
    if i != len(s):
        raise ValueError("trailing place text %r in %r" % (s[i:], s))
    return p


def _place(s, i):
    if s[i] == "_":
        m = _LOCAL_RE.match(s, i)
        local = int(m.group(1))
        projs = ()
        i = m.end()
    elif s[i] == "(":
        j = match_close(s, i)
        inner = s[i + 1 : j]
        if inner.startswith("*"):
            (_, local, projs), k = _place(inner, 1)
            if k != len(inner):
                raise ValueError("bad deref place " + inner)
            projs = projs + (("deref",),)
        else:
            (_, local, projs), k = _place(inner, 0)
            rest = inner[k:]
            if rest.startswith("."):
                m = re.match(r"\.(\d+): ", rest)
                projs = projs + (("field", int(m.group(1)), rest[m.end() :]),)
            elif rest.startswith(" as "):
                projs = projs + (("downcast", rest[4:].strip()),)
            else:
                raise ValueError("bad place inner %r" % inner)
        i = j + 1
    else:
        raise ValueError("bad place %r" % s[i : i + 60])
    # index projections
    while i < len(s) and s[i] == "[":
        j = match_close(s, i)
        inner = s[i + 1 : j]
        m = re.fullmatch(r"_(\d+)", inner)
        if m:
            projs = projs + (("index", int(m.group(1))),)
        else:
            m = re.fullmatch(r"(-?)(\d+) of (\d+)", inner)
            if m:
                projs = projs + (("cindex", int(m.group(2)), int(m.group(3)), m.group(1) == "-"),)
            else:
                m = re.fullmatch(r"(\d+):(-?)(\d*)", inner) or re.fullmatch(r"(\d+)\.\.(-?)(\d*)", inner)
                if not m:
                    raise ValueError("bad index %r" % inner)
                projs = projs + (("subslice", int(m.group(1)), int(m.group(3) or 0), m.group(2) == "-"),)
        i = j + 1
    return ("place", local, projs), i


def parse_operand(s):
    s = s.strip()
    if s.startswith("no_retag "):
        s = s[9:]
    if s.startswith("copy "):
        return ("copy", parse_place(s[5:]))
    if s.startswith("move "):
        return ("move", parse_place(s[5:]))
    if s.startswith("const "):
        return _const(s[6:].strip())
    return ("fn", s)


def _const(t):
    # `ZeroSized: T`, `"str"`, `5_i32`, `true`, `()`, `'c'`, path, `{alloc1: &T}`, b"..."
    if t.startswith("ZeroSized: "):
        return ("const", "ZeroSized", t[11:])
    return ("const", t, None)


def parse_rvalue(s):
    s = s.strip()
    if s.startswith("no_retag "):
        s = s[9:]
    if s.startswith(("copy ", "move ", "const ")):
        # maybe a cast:  OP as TYPE (Kind)
        j, st = scan(s, 0, (" as ",))
        if st is not None and s.endswith(")"):
            # find the last top-level "(" that opens the cast kind
            k = s.rfind(" (")
            # the kind may contain nested parens: PointerCoercion(Unsize, AsCast)
            # walk back to the matching open for the final ')'
            depth = 0
            k = len(s) - 1
            while k >= 0:
                if s[k] == ")":
                    depth += 1
                elif s[k] == "(":
                    depth -= 1
                    if depth == 0:
                        break
                k -= 1
            kind = s[k + 1 : -1]
            ty = s[j + 4 : k].strip()
            return ("cast", parse_operand(s[:j]), ty, kind)
        return ("use", parse_operand(s))
    if s.startswith("&"):
        r = s[1:]
        if r.startswith("raw const "):
            return ("rawptr", False, parse_place(r[10:]))
        if r.startswith("raw mut "):
            return ("rawptr", True, parse_place(r[8:]))
        if r.startswith("mut "):
            return ("ref", True, parse_place(r[4:]))
        if r.startswith("fake shallow "):
            return ("ref", False, parse_place(r[13:]))
        if r.startswith("fake "):
            return ("ref", False, parse_place(r[5:]))
        return ("ref", False, parse_place(r))
    m = re.match(r"([A-Za-z]+)\(", s)
    if m and s.endswith(")"):
        name = m.group(1)
        inner = s[m.end() : -1]
        if name in BINOPS:
            a, b = split_top(inner)
            return ("bin", name, parse_operand(a), parse_operand(b))
        if name in UNOPS:
            return ("un", name, parse_operand(inner))
        if name == "discriminant":
            return ("discr", parse_place(inner))
        if name == "Len":
            return ("len", parse_place(inner))
        if name == "CopyForDeref":
            return ("cfd", parse_place(inner))
        if name == "ShallowInitBox":
            a, b = split_top(inner)
            return ("box", parse_operand(a), b)
        if name in ("SizeOf", "AlignOf", "UbChecks", "ContractChecks", "OffsetOf"):
            return ("nullary", name, inner)
    if s.startswith("["):
        inner = s[1:-1]
        j, st = scan(inner, 0, ("; ",))
        if st is not None:
            return ("repeat", parse_operand(inner[:j]), inner[j + 2 :].strip())
        return ("agg_array", [parse_operand(x) for x in split_top(inner)])
    if s.startswith("("):
        j = match_close(s, 0)
        if j == len(s) - 1:
            return ("agg_tuple", [parse_operand(x) for x in split_top(s[1:-1])])
    if s.startswith("{closure@") or s.startswith("{coroutine@") or s.startswith("{async"):
        j = match_close(s, 0)
        path = s[: j + 1]
        rest = s[j + 1 :].strip()
        fields = {}
        if rest.startswith("{"):
            for f in split_top(rest[1:-1].strip()):
                k = f.index(": ")
                fields[f[:k]] = parse_operand(f[k + 2 :])
        return ("agg_closure", path, fields)
    # ADT aggregate: path { a: op, .. } | path(op, ..) | path
    j, st = scan(s, 0, (" {", "("))
    if st == " {":
        path = s[:j]
        body = s[j + 2 : -1].strip()
        fields = {}
        for f in split_top(body):
            k = f.index(": ")
            fields[f[:k]] = parse_operand(f[k + 2 :])
        return ("agg_adt", path, fields)
    if st == "(":
        path = s[:j]
        return ("agg_adt", path, [parse_operand(x) for x in split_top(s[j + 1 : -1])])
    return ("agg_adt", s, [])


# Statements: ('assign',place,rvalue) ('setdiscr',place,n) ('nop',)
# Terminators: ('goto',bb) ('switch',op,[(val,bb)],otherwise) ('return',) ('unreachable',) ('resume',)
#              ('drop',place,bb) ('call',dest_place|None,func_operand,args,bb|None,raw_func_text)
#              ('assert',cond_op,expected,msg,bb)

_BB = re.compile(r"bb(\d+)")


def parse_stmt(s):
    s = s.strip()
    if s.endswith(";"):
        s = s[:-1]
    if s.startswith(("StorageLive(", "StorageDead(", "nop", "FakeRead(", "PlaceMention(", "AscribeUserType(", "Coverage", "ConstEvalCounter", "Retag(", "Deinit(", "BackwardIncompatibleDropHint(")):
        return ("nop",)
    if s.startswith("goto -> "):
        return ("goto", int(_BB.match(s, 8).group(1)))
    if s == "return":
        return ("return",)
    if s == "unreachable":
        return ("unreachable",)
    if s == "resume" or s.startswith("terminate") or s == "abort":
        return ("resume",)
    if s.startswith("switchInt("):
        j = match_close(s, 9)
        op = parse_operand(s[10:j])
        k = s.index("[", j)
        arms = []
        other = None
        for a in split_top(s[k + 1 : match_close(s, k)]):
            v, b = a.split(": ")
            bb = int(b.strip()[2:])
            if v == "otherwise":
                other = bb
            else:
                arms.append((v, bb))
        return ("switch", op, arms, other)
    if s.startswith("drop("):
        j = match_close(s, 4)
        m = re.search(r"return: bb(\d+)", s[j:])
        return ("drop", parse_place(s[5:j]), int(m.group(1)) if m else None)
    if s.startswith("assert("):
        j = match_close(s, 6)
        parts = split_top(s[7:j])
        cond = parts[0]
        expected = True
        if cond.startswith("!"):
            expected = False
            cond = cond[1:]
        m = re.search(r"success: bb(\d+)", s[j:])
        return ("assert", parse_operand(cond), expected, parts[1] if len(parts) > 1 else "", int(m.group(1)))
    if s.startswith("discriminant("):
        j = match_close(s, 12)
        return ("setdiscr", parse_place(s[13:j]), int(s[j + 1 :].split("=")[1].strip()))
    if s.startswith(("falseEdge", "falseUnwind")):
        m = re.search(r"bb(\d+)", s)
        return ("goto", int(m.group(1)))
    # assignment or call
    j, st = scan(s, 0, (" = ",))
    if st is not None and (s[0] == "_" or s[0] == "("):
        lhs = s[:j]
        rhs = s[j + 3 :]
    else:
        lhs = None
        rhs = s
    # is rhs a call?  `FUNC(ARGS) -> [return: bbN, unwind ...]` or `FUNC(ARGS) -> unwind ...`
    k, st2 = scan(rhs, 0, (" -> ",))
    if st2 is not None:
        callpart = rhs[:k]
        tail = rhs[k + 4 :]
        # callpart = FUNC(ARGS): find the last top-level "(" group
        close = len(callpart) - 1
        assert callpart[close] == ")", s
        # find matching open by forward scanning top-level parens
        i = 0
        open_idx = None
        while True:
            i2, st3 = scan(callpart, i, ("(",))
            if st3 is None:
                break
            e = match_close(callpart, i2)
            if e == close:
                open_idx = i2
                break
            i = e + 1
        assert open_idx is not None, s
        func = callpart[:open_idx].strip()
        args = [parse_operand(x) for x in split_top(callpart[open_idx + 1 : close])]
        m = re.search(r"return: bb(\d+)", tail)
        ret = int(m.group(1)) if m else None
        fop = parse_operand(func)
        return ("call", parse_place(lhs) if lhs else None, fop, args, ret, func)
    if lhs is None:
        raise ValueError("cannot parse statement: " + s[:200])
    return ("assign", parse_place(lhs), parse_rvalue(rhs))


# --------------------------------------------------------------------------- items


class Block:
    __slots__ = ("raw", "parsed", "cleanup")

    def __init__(self, cleanup):
        self.raw = []
        self.parsed = None
        self.cleanup = cleanup

    def stmts(self):
        if self.parsed is None:
            self.parsed = [parse_stmt(x) for x in self.raw]
        return self.parsed


class Item:
    __slots__ = ("kind", "name", "sig", "nargs", "ret", "locals", "blocks", "line", "argtys", "span", "targs")

    def __repr__(self):
        return "<Item %s %s>" % (self.kind, self.name)


_HEAD_FN = re.compile(r"^fn (.*)$")
_LET = re.compile(r"^\s+let (?:mut )?_(\d+): (.*);$")
_BBH = re.compile(r"^    bb(\d+)( \(cleanup\))?: \{$")


def parse_header(line):
    """`fn NAME(ARGS) -> RET {`  /  `const NAME: TY = {`  / `static [mut ]NAME: TY = {`"""
    if line.startswith("fn "):
        body = line[3:]
        j, st = scan(body, 0, ("(",))
        # the name itself may contain parens? (no) but contains <impl at ...> with ": "
        name = body[:j]
        e = match_close(body, j)
        args = split_top(body[j + 1 : e])
        rest = body[e + 1 :].strip()
        ret = "()"
        if rest.startswith("->"):
            ret = rest[2:].rstrip("{").strip()
        argtys = []
        for a in args:
            k = a.index(": ")
            argtys.append(a[k + 2 :])
        return "fn", name, argtys, ret
    for kw in ("const ", "static mut ", "static "):
        if line.startswith(kw):
            body = line[len(kw) :]
            j, st = scan(body, 0, (": ",))
            # names contain "<impl at f.rs:1:1: 2:2>" - scan() respects <> nesting so ': ' inside is skipped
            name = body[:j]
            ty = body[j + 2 :]
            if ty.endswith(" = {"):
                ty = ty[:-4]
            return kw.strip().split()[0], name, [], ty
    raise ValueError(line)


def parse_mir(path):
    items = {}
    cur = None
    blk = None
    with open(path, encoding="utf-8") as f:
        lineno = 0
        skipping = False
        for line in f:
            lineno += 1
            line = line.rstrip("\n")
            if cur is None:
                if skipping:
                    if line == "}":
                        skipping = False
                    continue
                if not line or line.startswith("//"):
                    continue
                if line.startswith("alloc"):
                    if line.endswith("{"):
                        skipping = True
                    continue
                if line.startswith(("fn ", "const ", "static ")):
                    kind, name, argtys, ret = parse_header(line)
                    cur = Item()
                    cur.kind = kind
                    cur.name = name
                    cur.argtys = argtys
                    cur.nargs = len(argtys)
                    cur.ret = ret
                    cur.locals = {0: ret}
                    for i, t in enumerate(argtys):
                        cur.locals[i + 1] = t
                    cur.blocks = {}
                    cur.line = lineno
                    if not line.endswith("{"):
                        # e.g. `const X: T = value;` one-liners
                        items.setdefault(name, cur)
                        cur = None
                    continue
                continue
            # inside an item
            if line == "}":
                # keep the first definition (duplicates exist for consts evaluated twice)
                items.setdefault(cur.name, cur)
                cur = None
                blk = None
                continue
            if blk is not None:
                if line == "    }":
                    blk = None
                else:
                    blk.raw.append(line)
                continue
            m = _BBH.match(line)
            if m:
                blk = Block(bool(m.group(2)))
                cur.blocks[int(m.group(1))] = blk
                continue
            m = _LET.match(line)
            if m:
                cur.locals[int(m.group(1))] = m.group(2)
    return items


if __name__ == "__main__":
    import time

    t = time.time()
    items = parse_mir(sys.argv[1])
    print(len(items), "items in %.2fs" % (time.time() - t))
    bad = 0
    n = 0
    t = time.time()
    for it in items.values():
        for b in it.blocks.values():
            for raw in b.raw:
                n += 1
                try:
                    parse_stmt(raw)
                except Exception as e:  # noqa
                    bad += 1
                    if bad < 15:
                        print("FAIL", it.name[:60], "|", raw.strip()[:200], "|", repr(e)[:100])
    print(n, "statements,", bad, "failures, %.2fs" % (time.time() - t))
