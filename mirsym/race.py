"""Two model threads with one pre-emption (context bound 1 + 1): thread A runs a client call; at ONE of its lock
operations (a decision of the path) thread B's whole call runs; then A resumes.

Shared memory of the engine is only reached through std RwLock / Mutex, so lock acquisitions are the only points at
which another thread's effects can become visible: pre-empting there (and nowhere else) covers every schedule with one
context switch into B and one back.  Lock *holding* is tracked through guard objects (released by the MIR `drop`
terminators / mem::drop): if B needs a lock that A holds at the pre-emption point, B would block and the schedule needs
a second pre-emption: the path is abandoned (counted, outside the bound) - never reported.
"""
import os

from .values import *


class Race:
    def __init__(self, run_b, choose):
        self.active = False
        self.cur = 0            # 0 = A, 1 = B
        self.held = {0: [], 1: []}
        self.count = 0          # lock operations of A so far
        self.b_done = False
        self.run_b = run_b      # callable: runs B's call (nested), returns its result
        self.choose = choose    # callable(index) -> bool: pre-empt A before its index-th lock operation?
        self.b_result = None
        self.preempted_at = None
        self.preempt_site = None
        self.leaks = []

    def site(self, I):
        for f in reversed(I.call_stack):
            n = f.item.name
            if "std::" not in n[:8]:
                return "%s bb%s" % (n[-70:], getattr(f, "bb", "?"))
        return "?"

    def acquire(self, I, lk, mode):
        if self.cur == 0 and not self.b_done:
            idx = self.count
            self.count += 1
            if self.choose(idx):
                self.preempted_at = idx
                self.preempt_site = self.site(I)
                self.switch_to_b(I)
        other = self.held[1 - self.cur]
        if os.environ.get("VERIF_RACE_DEBUG") and self.cur == 1 and mode == "w":
            print("B-ACQUIRE", self.site(I)[-60:], "lock", id(lk.f), "A holds", [(id(g.c), g.site[-40:]) for g in other])
        for g in other:
            if g.c is lk.f and not g.released and (mode == "w" or g.mode == "w"):
                if self.cur == 1:
                    raise PathInfeasible("B blocks on a lock A holds (%s): schedule needs a second pre-emption" % g.site)
                self.leaks.append(g.site)
                raise Unsupported("race model: guard of the finished thread B never released (%s)" % g.site)
        g = Guard(lk.f, 0, mode, self.cur, self.site(I) if mode == "w" else "")
        self.held[self.cur].append(g)
        return g

    def switch_to_b(self, I):
        W = I.world
        if os.environ.get("VERIF_RACE_DEBUG"):
            print("SWITCH at", self.count, "A holds", [(g.mode, g.site[-50:], g.released) for g in self.held[0]])
        saved_ctx = W.ctx_stack
        W.ctx_stack = []          # Context::current is a thread local
        saved_stack = I.call_stack
        self.cur = 1
        try:
            self.b_result = self.run_b()
        finally:
            self.cur = 0
            W.ctx_stack = saved_ctx
        self.b_done = True
        left = [g for g in self.held[1] if not g.released]
        if left:
            self.leaks.extend(g.site for g in left)

    def dropped(self, v, depth=0):
        if isinstance(v, Guard):
            if not v.released:
                v.released = True
                try:
                    self.held[v.owner].remove(v)
                except ValueError:
                    pass
            return
        if depth >= 3:
            return
        if isinstance(v, Enum):
            for x in v.f:
                self.dropped(x, depth + 1)
        elif isinstance(v, Agg) and not isinstance(v, ClosureAgg):
            for x in v.f:
                self.dropped(x, depth + 1)

    def finish_a(self, I):
        """A returned.  If B has not run yet (no pre-emption chosen) it runs now: the sequential schedule A;B."""
        if not self.b_done:
            self.preempted_at = None
            self.switch_to_b(I)
