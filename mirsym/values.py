"""Run-time value representation of the MIR interpreter."""
import z3


class Unsupported(Exception):
    """A MIR construct or callee without a model: machinery fault (exit 2), never a verdict."""


class Inconclusive(Exception):
    """The solver gave no answer within its budget: the scenario is reported as inconclusive."""


class RustPanic(Exception):
    def __init__(self, msg):
        Exception.__init__(self, msg)
        self.msg = msg


class PathInfeasible(Exception):
    pass


class _Uninit:
    def __repr__(self):
        return "UNINIT"


UNINIT = _Uninit()
UNIT = ()


class Agg:
    """struct / tuple / closure environment / array-of-fixed-size when ty == 'array'."""

    __slots__ = ("ty", "f", "g")

    def __init__(self, ty, f, g=None):
        self.ty = ty
        self.f = f
        self.g = g

    def __repr__(self):
        return "%s%r" % (self.ty.split("::")[-1] if self.ty else "", tuple(self.f))


class ClosureAgg(Agg):
    """closure / coroutine environment with named captures"""

    __slots__ = ("names", "ts")

    def __init__(self, ty, f, names, ts=None):
        Agg.__init__(self, ty, f)
        self.names = names
        self.ts = ts  # generic substitution of the defining frame

    def cap(self, name):
        return self.f[self.names.index(name)]


class Enum:
    __slots__ = ("ty", "d", "f", "vn")

    def __init__(self, ty, d, f=None, vn=None):
        self.ty = ty
        self.d = d
        self.f = f if f is not None else []
        self.vn = vn

    def __repr__(self):
        return "%s::%s%r" % (self.ty, self.vn if self.vn is not None else self.d, tuple(self.f))


class VecV:
    __slots__ = ("a",)

    def __init__(self, a=None):
        self.a = a if a is not None else []

    def __repr__(self):
        return "Vec%r" % (self.a,)


class SliceV:
    __slots__ = ("a", "lo", "hi")

    def __init__(self, a, lo, hi):
        self.a = a
        self.lo = lo
        self.hi = hi

    def items(self):
        return self.a[self.lo : self.hi]

    def __repr__(self):
        return "Slice%r" % (self.items(),)


class MapV:
    """HashMap / BTreeMap / serde_json::Map / HashSet (values = True).  Insertion-ordered dict;
    `sorted` maps iterate in key order."""

    __slots__ = ("d", "sorted", "ty")

    def __init__(self, sorted_=False, ty="map", d=None):
        self.d = d if d is not None else {}
        self.sorted = sorted_
        self.ty = ty

    def keys(self):
        if self.sorted:
            return sorted(self.d.keys(), key=_sortkey)
        return list(self.d.keys())

    def __repr__(self):
        return "%s%r" % (self.ty, self.d)


def _sortkey(k):
    if isinstance(k, str):
        return (0, k.encode("utf-8"))
    if isinstance(k, (int, bool)):
        return (1, k)
    if isinstance(k, tuple):
        return (2, tuple(_sortkey(x) for x in k))
    return (3, repr(k))


class KeyBox:
    """dict value wrapper keeping the original Rust key next to the value."""

    __slots__ = ("k", "v")

    def __init__(self, k, v):
        self.k = k
        self.v = v

    def __repr__(self):
        return repr(self.v)


class BoxV:
    """Box / Arc / Rc: a shared cell.  kind in {'box','arc','rc'}"""

    __slots__ = ("c", "kind")

    def __init__(self, v, kind="arc"):
        self.c = [v]
        self.kind = kind

    def __repr__(self):
        return "%s(%r)" % (self.kind, self.c[0].__class__.__name__)


class WeakV:
    __slots__ = ("t",)

    def __init__(self, t=None):
        self.t = t

    def __repr__(self):
        return "Weak(%s)" % ("set" if self.t is not None else "dangling")


class Ptr:
    """Pointer to slot k of python list c."""

    __slots__ = ("c", "k")

    def __init__(self, c, k):
        self.c = c
        self.k = k

    def get(self):
        return self.c[self.k]

    def set(self, v):
        self.c[self.k] = v

    def __repr__(self):
        try:
            return "&%r" % (self.c[self.k],)
        except Exception:
            return "&?"


class Guard(Ptr):
    """Lock guard handed out while the two-thread race mode is on: remembers which lock, which mode, which model thread."""

    __slots__ = ("mode", "owner", "released", "site")

    def __init__(self, c, k, mode, owner, site=""):
        Ptr.__init__(self, c, k)
        self.mode = mode
        self.owner = owner
        self.released = False
        self.site = site


class ValPtr:
    """Pseudo pointer to an unsized / by-value thing (str, slice view) that has no slot."""

    __slots__ = ("v",)

    def __init__(self, v):
        self.v = v

    def get(self):
        return self.v

    def set(self, v):
        raise Unsupported("write through a value pointer")


class MapSlot:
    """Pointer to the value stored under key k in dict d (for get_mut / entry API)."""

    __slots__ = ("d", "k")

    def __init__(self, d, k):
        self.d = d
        self.k = k

    def get(self):
        return self.d[self.k]

    def set(self, v):
        self.d[self.k] = v


class FnRef:
    __slots__ = ("path",)

    def __init__(self, path):
        self.path = path

    def __repr__(self):
        return "fn(%s)" % self.path


class Char:
    __slots__ = ("c",)

    def __init__(self, c):
        self.c = c

    def __eq__(self, o):
        return isinstance(o, Char) and o.c == self.c

    def __hash__(self):
        return hash(("char", self.c))

    def __repr__(self):
        return "'%s'" % self.c


class JNum:
    """serde_json::Number: n is int, float or a z3 Int term."""

    __slots__ = ("n",)

    def __init__(self, n):
        self.n = n

    def __repr__(self):
        return "Num(%r)" % (self.n,)


class Opaque:
    """A value of a library type that the model keeps as a tagged python payload."""

    __slots__ = ("tag", "v")

    def __init__(self, tag, v=None):
        self.tag = tag
        self.v = v

    def __repr__(self):
        return "<%s %r>" % (self.tag, self.v)


class Ser:
    """The textual serialisation of value v (JSON/YAML text kept structurally)."""

    __slots__ = ("v", "fmt")

    def __init__(self, v, fmt="json"):
        self.v = v
        self.fmt = fmt

    def __repr__(self):
        return "Ser(%r)" % (self.v,)


def is_sym(v):
    return isinstance(v, z3.ExprRef)


def some(v):
    return Enum("Option", 1, [v], "Some")


def none():
    return Enum("Option", 0, [], "None")


def ok(v):
    return Enum("Result", 0, [v], "Ok")


def err(v):
    return Enum("Result", 1, [v], "Err")


def is_some(v):
    return isinstance(v, Enum) and v.ty == "Option" and v.d == 1


def deref(v):
    """Follow a reference-like value to what it points at."""
    if isinstance(v, (Ptr, ValPtr, MapSlot)):
        return v.get()
    if isinstance(v, BoxV):
        return v.c[0]
    return v


def deref_all(v):
    while isinstance(v, (Ptr, ValPtr, MapSlot, BoxV)):
        v = deref(v)
    return v


def copyval(v):
    """Value copy for `copy` operands / by-value aggregates (no heap ownership involved)."""
    if isinstance(v, ClosureAgg):
        return ClosureAgg(v.ty, [copyval(x) for x in v.f], v.names, v.ts)
    if isinstance(v, Agg):
        return Agg(v.ty, [copyval(x) for x in v.f], v.g)
    if isinstance(v, Enum):
        return Enum(v.ty, v.d, [copyval(x) for x in v.f], v.vn)
    return v


def clone_value(v):
    """Structural deep clone with Arc/Rc/Weak/reference sharing: the meaning of a derived Clone
    and of Clone on std containers."""
    if isinstance(v, (int, str, bool, float, tuple)) or v is None:
        return v
    if isinstance(v, ClosureAgg):
        return ClosureAgg(v.ty, [clone_value(x) for x in v.f], v.names, v.ts)
    if isinstance(v, Agg):
        return Agg(v.ty, [clone_value(x) for x in v.f], v.g)
    if isinstance(v, Enum):
        return Enum(v.ty, v.d, [clone_value(x) for x in v.f], v.vn)
    if isinstance(v, VecV):
        return VecV([clone_value(x) for x in v.a])
    if isinstance(v, MapV):
        return MapV(v.sorted, v.ty, {k: KeyBox(clone_value(x.k), clone_value(x.v)) for k, x in v.d.items()})
    if isinstance(v, BoxV):
        if v.kind == "box":
            return BoxV(clone_value(v.c[0]), "box")
        return v
    if isinstance(v, Ser):
        return v
    if isinstance(v, JNum):
        return v
    if isinstance(v, Opaque):
        return v
    return v
