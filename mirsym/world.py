"""World model: boots the real Runtime through its MIR, replaces the environment boundary
(tokio, QuickJS, clock, ids, package registry) by explicit models and drives the engine job by job.

Granularity: one spawned job / one scheduler signal / one client action / one tick is atomic.
Which enabled job runs next is a decision of the current path (explored exhaustively or by a stated
policy)."""
import re
import os
import z3

from .values import *
from .interp import PyFn, as_list
from .index import short_type
from .intr_core import display, default_for, struct_eq, IterV
from .intr_serde import (to_json, from_json, py_to_json, json_to_py, jnull, jbool, jnum, jstr, jobj, SerdeError,
                         serde_err, text_to_json)
from .intr_coll import key_of
from .jsmodel import JsEval, JsException

STATE_NAMES = ["None", "Ready", "Pending", "Running", "Interrupt", "Completed", "Submitted", "Backed", "Cancelled",
               "Error", "Aborted", "Skipped", "Removed"]
TERMINAL = {"Completed", "Submitted", "Backed", "Cancelled", "Error", "Aborted", "Skipped", "Removed"}

T = "scheduler::process::task::Task"


class _WorldProxy:
    """Environment models are installed once per interpreter and always talk to the current world."""

    def __init__(self, I):
        object.__setattr__(self, "_I", I)

    def __getattr__(self, name):
        return getattr(object.__getattribute__(self, "_I").world, name)

    def __setattr__(self, name, value):
        setattr(object.__getattribute__(self, "_I").world, name, value)


class World:
    def __init__(self, I, cache_cap=None, keep_processes=None, max_retry=None, tick_secs=None, policy="explore"):
        self.I = I
        I.world = self
        self.policy = policy  # 'explore' | 'fifo' | 'lifo'
        self.cfg = dict(cache_cap=cache_cap, keep_processes=keep_processes, max_message_retry_times=max_retry,
                        tick_interval_secs=tick_secs)
        self.jobs = []  # spawned coroutines not yet run: (kind, closure agg)
        self.channel = []  # scheduler signals that reached the mpsc channel
        self.clock = 1_700_000_000_000  # epoch-like milliseconds: a start_time of 0 is far in the past, as on a real clock
        self.clock_sym = None
        self.ids = 0
        self.messages = []  # generated messages (python dicts) in generation order
        self.events = []  # ('start'|'complete'|'error', pid, dict)
        self.trace = []  # state writes: (pid, tid, kind, old, new, how)
        self.store_writes = []
        self.panics = []
        self.ctx_stack = []
        self.js_sets = []  # ($set name, value) in evaluation order: the script-side record of writes (C07's reference)
        self.pack_table = None
        self.handlers_installed = False
        self.eval_log = []
        self.action_results = []
        self.spawn_log = []
        self.cache_capacity = cache_cap if (cache_cap is not None and cache_cap < 8) else None
        self.evictions = []
        self.install()

    # ------------------------------------------------------------------ Rust value builders
    def mk_struct(self, name, **kw):
        fields = self.I.p.src.struct_fields(name)
        if fields is None:
            raise Unsupported("unknown struct " + name)
        vals = []
        for fn, ft, fa in fields:
            if fn in kw:
                vals.append(kw.pop(fn))
            else:
                vals.append(default_for(self.I, ft))
        if kw:
            raise Unsupported("unknown fields %s for %s" % (list(kw), name))
        return Agg(name, vals)

    def field(self, agg, struct, name):
        fields = self.I.p.src.struct_fields(struct)
        for i, (fn, ft, fa) in enumerate(fields):
            if fn == name:
                return agg.f[i]
        raise KeyError(name)

    def vars_of(self, d):
        """python dict (JSON-like, leaves may be z3) -> Vars"""
        j = py_to_json(d)
        return Agg("model::vars::Vars", [j.f[0]])

    def opt(self, v):
        return none() if v is None else some(v)

    # ------------------------------------------------------------------ environment models
    def install(self):
        I = self.I
        if getattr(I, "_world_installed", False):
            return
        I._world_installed = True
        W = _WorldProxy(I)
        ov = I.overrides

        # ---- tracing: disabled
        @I.intrinsic("<tracing::Level as std::cmp::PartialOrd>::le")
        def _lvl(I, a, cc):
            return False

        @I.pattern(r"^tracing::Span::.*$", r"^<tracing::span::Entered as .*$", r"^tracing::span::.*$",
                   r"^tracing::__macro_support::.*$", r"^tracing::level_filters::LevelFilter::current$",
                   r"^tracing::dispatcher::.*$")
        def _span(I, a, cc):
            return Opaque("span")

        # ---- time and ids
        def time_millis(I, a, cc):
            return W.now()

        ov["utils::time::time_millis"] = time_millis
        ov["utils::time::timestamp"] = lambda I, a, cc: W.tick_clock()

        def shortid(I, a, cc):
            W.ids += 1
            return "t%03d" % W.ids

        ov["utils::id::shortid"] = shortid
        ov["utils::id::longid"] = lambda I, a, cc: shortid(I, a, cc).replace("t", "L")

        # ---- tokio
        @I.intrinsic("tokio::runtime::Handle::current")
        def _handle(I, a, cc):
            return Opaque("handle")

        @I.intrinsic("tokio::runtime::Handle::spawn", "tokio::spawn", "tokio::task::spawn")
        def _spawn(I, a, cc):
            co = a[-1]
            W.spawn(co)
            return Opaque("joinhandle")

        ov["scheduler::queue::queue::Queue::new"] = lambda I, a, cc: BoxV(Agg("scheduler::queue::queue::Queue", [BoxV(Opaque("rx")), BoxV(Opaque("tx"))]))
        ov["env::Enviroment::new"] = lambda I, a, cc: Agg("env::Enviroment", [BoxV(Agg("RwLock", [VecV([])])), BoxV(Agg("RwLock", [VecV([])]))])

        # ---- JS evaluation
        def ctx_scope(I, a, cc):
            ctx, f = a
            W.ctx_stack.append(ctx)
            try:
                return I.call_value(f, [], cc.frame)
            finally:
                W.ctx_stack.pop()

        def ctx_current(I, a, cc):
            if W.ctx_stack:
                return ok(clone_value(W.ctx_stack[-1]))
            return err(Agg("ActError::Runtime", ["no context"]))

        def ctx_with(I, a, cc):
            return I.call_value(a[0], [Ptr([W.ctx_stack[-1]], 0)], cc.frame)

        self = W
        self._override_method("Context", "scope", ctx_scope)
        self._override_method("Context", "current", ctx_current)
        self._override_method("Context", "with", ctx_with)

        def env_eval(I, a, cc):
            expr = deref_all(a[1])
            ty = cc.generics()[-1] if cc.generics() else "serde_json::Value"
            return W.js_eval(expr, ty)

        self._override_method("Enviroment", "eval", env_eval)

        # ---- jsonschema: always valid (parameters of generated models satisfy their schemas)
        @I.intrinsic("jsonschema::validate")
        def _validate(I, a, cc):
            return ok(UNIT)

        # ---- package registry
        def pack_get(I, a, cc):
            name = deref_all(a[1])
            t = W.packages().get(name)
            if t is None:
                return err(W.act_error("Store", "cannot find packages by '%s'" % name))
            return ok(t["info"])

        self._override_method("PackageExecutor", "get", pack_get)

        def package_get(I, a, cc):
            name = deref_all(a[1])
            t = W.packages().get(name)
            if t is None:
                return none()
            return some(t["register"])

        self._override_method("Package", "get", package_get)

        # ---- strum EnumIter over StoreIden
        @I.pattern(r"^<store::StoreIden as strum::IntoEnumIterator>::iter$")
        def _iden_iter(I, a, cc):
            vs = I.p.src.enums["StoreIden"]
            return IterV([Enum("StoreIden", d, [], n) for n, d, _ in vs])

        @I.pattern(r"^<store::StoreIden as std::convert::AsRef<str>>::as_ref$")
        def _iden_asref(I, a, cc):
            return deref_all(a[0]).vn.lower()

        @I.pattern(r"^<\(?dyn std::any::Any.*>::downcast_ref$", r"^<dyn std::any::Any.* as .*>::downcast_ref$", r"^<dyn std::any::Any.*>::downcast_ref$",
                   r"^std::any::<impl dyn std::any::Any.*>::downcast_ref$")
        def _downcast(I, a, cc):
            return some(a[0])

        @I.pattern(r"^<.* as std::hash::Hash>::hash$")
        def _hash(I, a, cc):
            return UNIT

        # state-write monitor (trace for the lifecycle / store-image oracles)
        self.install_monitors()

    def _override_method(self, ty_short, method, fn):
        found = False
        for (k_ty, k_tr, k_m), its in self.I.p.impls.items():
            if k_m == method and k_ty == ty_short:
                for it in its:
                    self.I.overrides[it.name] = fn
                    found = True
        if not found:
            raise Unsupported("override target not found: %s::%s" % (ty_short, method))

    def act_error(self, variant, msg):
        d = self.I.p.src.enum_variant("ActError", variant)
        return Enum("ActError", d, [msg], variant)

    # ------------------------------------------------------------------ packages
    def packages(self):
        if self.pack_table is not None:
            return self.pack_table
        I = self.I
        tbl = {}
        for (k_ty, k_tr, k_m), its in I.p.impls.items():
            if k_tr == "ActPackage" and k_m == "meta":
                for it in its:
                    meta = I.run_item(it, [], None)
                    name = self.field(meta, "ActPackageMeta", "name")
                    run_as = self.field(meta, "ActPackageMeta", "run_as")
                    schema = self.field(meta, "ActPackageMeta", "schema")
                    info = self.mk_struct("PackageInfo") if I.p.src.struct_fields("PackageInfo") else None
                    fields = I.p.src.struct_fields("PackageInfo")
                    vals = []
                    for fn, ft, fa in fields:
                        if fn == "id" or fn == "name":
                            vals.append(name)
                        elif fn == "run_as":
                            vals.append(run_as)
                        elif fn == "schema":
                            vals.append(display(I, schema))
                        else:
                            vals.append(default_for(I, ft))
                    info = Agg("PackageInfo", vals)
                    ty = k_ty

                    def mk_create(ty=ty, name=name):
                        def create(I, args):
                            params = args[0]
                            try:
                                v = from_json(I, params, ty)
                            except SerdeError as e:
                                return err(self.act_error("Runtime", "package params: %s" % e))
                            return ok(BoxV(v, "box"))

                        return PyFn(create)

                    reg = Agg("ActPackageRegister", [FnRef(it.name), mk_create()])
                    tbl[name] = {"info": info, "register": reg, "type": ty, "run_as": run_as}
        self.pack_table = tbl
        return tbl

    # ------------------------------------------------------------------ clock
    def now(self):
        self.clock += 1
        return self.clock

    def tick_clock(self):
        self.clock += 1
        return self.clock * 1000

    # ------------------------------------------------------------------ JS
    def js_eval(self, expr, ty):
        I = self.I
        if not self.ctx_stack:
            raise Unsupported("eval outside of a context scope")
        ctx = self.ctx_stack[-1]
        task = I.call_raw("scheduler::context::Context::task", [Ptr([ctx], 0)], None)
        vars_cache = {}

        def lookup(name, via_get):
            if via_get:
                r = I.call_raw("scheduler::process::task::Task::find::<serde_json::Value>", [Ptr(task.c, 0), name], None)
                return r.f[0] if r.d == 1 else None
            if "v" not in vars_cache:
                vars_cache["v"] = I.call_raw("scheduler::process::task::Task::vars", [Ptr(task.c, 0)], None)
            m = vars_cache["v"].f[0]
            kb = m.d.get(name)
            return clone_value(kb.v) if kb is not None else None

        def setter(name, v):
            self.js_sets.append((name, v))
            m = MapV(True, "Map")
            m.d[name] = KeyBox(name, v)
            I.call_raw("scheduler::process::task::Task::update_data", [Ptr(task.c, 0), Ptr([Agg("model::vars::Vars", [m])], 0)], None)
            vars_cache.clear()

        def env_lookup(name):
            proc = self.field(ctx, "Context", "proc")
            env = I.call_raw("scheduler::process::process::Process::env", [Ptr(proc.c, 0)], None)
            kb = env.f[0].d.get(name)
            return clone_value(kb.v) if kb is not None else None

        def env_setter(name, v):
            I.call_raw("scheduler::context::Context::set_env::<serde_json::Value>", [Ptr([ctx], 0), name, v], None)

        def proc_setter(name, v):
            m = MapV(True, "Map")
            m.d[name] = KeyBox(name, v)
            proc = self.field(ctx, "Context", "proc")
            I.call_raw("scheduler::process::process::Process::set_data", [Ptr(proc.c, 0), Ptr([Agg("model::vars::Vars", [m])], 0)], None)
            vars_cache.clear()

        self.eval_log.append(expr)
        try:
            v = JsEval(I, lookup, setter, env_lookup, env_setter, proc_setter).run(expr)
        except JsException as e:
            d = I.p.src.enum_variant("ActError", "Exception")
            return err(Enum("ActError", d, ["", str(e)], "Exception"))
        try:
            return ok(from_json(I, v, ty))
        except SerdeError as e:
            return err(I.call_raw("<error::ActError as std::convert::From<serde_json::Error>>::from", [serde_err(str(e))], None))

    # ------------------------------------------------------------------ boot
    def boot(self):
        I = self.I
        c = self.cfg
        data = self.mk_struct("ConfigData", cache_cap=self.opt(c["cache_cap"]), tick_interval_secs=self.opt(c["tick_interval_secs"]),
                              max_message_retry_times=self.opt(c["max_message_retry_times"]), keep_processes=self.opt(c["keep_processes"]),
                              log=none())
        config = Agg("config::Config", [data, Opaque("toml")])
        self.config = config
        self.rt = I.call_raw("scheduler::runtime::Runtime::create", [Ptr([config], 0)], None)
        rt = self.rt.c[0]
        self.emitter = self.field(rt, "Runtime", "emitter")
        self.cache = self.field(rt, "Runtime", "cache")
        self.scher = self.field(rt, "Runtime", "scher")
        self.store = self.field(self.cache.c[0], "Cache", "store")
        I.call_raw("store::store::Store::init", [Ptr(self.store.c, 0)], None)
        I.call_raw("event::emitter::Emitter::init", [Ptr(self.emitter.c, 0), Ptr([self.rt], 0)], None)
        # the scheduler's own emitter (task/proc events) also needs the runtime
        sch_emitter = self.field(self.scher.c[0], "Scheduler", "emitter")
        I.call_raw("event::emitter::Emitter::init", [Ptr(sch_emitter.c, 0), Ptr([self.rt], 0)], None)
        # boot-time spawns (the tick interval loop) are not jobs of the model: ticks are explicit
        self.jobs = [j for j in self.jobs if j[0] not in ("tick_loop",)]
        # default channel: record everything
        W = _WorldProxy(self.I)
        self.on("on_message", "default", lambda e: W.messages.append(W.msg_dict(e)))
        self.on("on_start", "default", lambda e: W.events.append(("start", W.msg_dict(e))))
        self.on("on_complete", "default", lambda e: W.events.append(("complete", W.msg_dict(e))))
        self.on("on_error", "default", lambda e: W.events.append(("error", W.msg_dict(e))))
        return self

    def on(self, which, key, pyfn):
        def h(I, args):
            e = deref_all(args[0])  # Event<Message>
            pyfn(e)
            return UNIT

        self.I.call_raw("event::emitter::Emitter::" + which, [Ptr(self.emitter.c, 0), key, PyFn(h)], None)

    def msg_of_event(self, e):
        # Event<T, E> { inner: T, extra: E, runtime }
        fields = self.I.p.src.struct_fields("Event")
        for i, (fn, ft, fa) in enumerate(fields):
            if fn == "inner":
                return deref_all(e.f[i])
        raise Unsupported("Event.inner")

    def msg_dict(self, e):
        m = self.msg_of_event(e)
        fields = self.I.p.src.struct_fields("Message@acts/src/event/message.rs")
        out = {}
        for (fn, ft, fa), v in zip(fields, m.f):
            out[fn] = self.py(v)
        out["_seq"] = len(self.messages)
        return out

    def py(self, v):
        """Rust value -> plain python (for oracles and evidence)."""
        if isinstance(v, (Ptr, ValPtr, MapSlot, BoxV)):
            return self.py(deref(v))
        if isinstance(v, Enum):
            if v.ty == "Value":
                return json_to_py(v)
            if v.ty == "Option":
                return self.py(v.f[0]) if v.d == 1 else None
            if not v.f:
                return v.vn if v.vn is not None else v.d
            return {v.vn: [self.py(x) for x in v.f]}
        if isinstance(v, Agg):
            st = short_type(v.ty) if v.ty else ""
            if st == "Vars":
                return json_to_py(Enum("Value", 5, [v.f[0]], "Object"))
            fields = self.I.p.src.struct_fields(st)
            if fields and len(fields) == len(v.f):
                return {fn: self.py(x) for (fn, ft, fa), x in zip(fields, v.f)}
            return [self.py(x) for x in v.f]
        if isinstance(v, VecV):
            return [self.py(x) for x in v.a]
        if isinstance(v, MapV):
            return {str(k): self.py(v.d[k].v) for k in v.keys()}
        if isinstance(v, JNum):
            return v.n
        if isinstance(v, Ser):
            return {"$ser": self.py(v.v)}
        return v

    # ------------------------------------------------------------------ jobs
    def spawn(self, co):
        item = self.I.p.closure_item(co.ty)
        if item is None:
            raise Unsupported("spawned coroutine without body: " + co.ty)
        name = item.name
        self.spawn_log.append(name)
        if "queue::queue" in name and "::send::" in name:
            self.jobs.append(("send", co))
        elif "::launch::" in name:
            self.jobs.append(("launch", co))
        elif "::return_to_act::" in name:
            self.jobs.append(("return", co))
        elif "::event_loop::" in name:
            pass  # modelled by the driver
        elif "::initialize::" in name:
            self.jobs.append(("tick_loop", co))
        elif "emitter::Emitter" in name or "event::emitter" in name:
            # dispatch to handlers: the handlers of the model only record, so the job is run at once
            # (generation order == delivery order in the model; cross-task delivery order is outside the claims)
            self.dispatch(co)
        else:
            raise Unsupported("unknown spawned job: " + name)

    def dispatch(self, co):
        I = self.I
        handles = co.cap("handles")
        lk = handles.c[0]
        coll = lk.f[0]
        args = [co.f[i] for i, n in enumerate(co.names) if n != "handles"]
        if isinstance(coll, MapV):
            for k in coll.keys():
                h = coll.d[k].v
                I.call_value(h, [Ptr([x], 0) for x in args], None)
        else:
            for h in list(coll.a):
                I.call_value(h, [Ptr([x], 0) for x in args], None)

    def enabled(self):
        """(kind, index) of everything that can run now."""
        out = [("job", i) for i in range(len(self.jobs))]
        out += [("sig", i) for i in range(len(self.channel))]
        return out

    def run_one(self, kind, idx):
        I = self.I
        if kind == "job":
            jk, co = self.jobs.pop(idx)
            if jk == "send":
                sig = co.cap("sig")
                self.channel.append(sig)
            elif jk == "launch":
                proc = co.cap("proc")
                self.guard(lambda: I.call_raw("scheduler::process::process::Process::start", [Ptr([proc], 0)], None), "launch")
            elif jk == "return":
                scher = co.cap("scher")
                action = co.cap("action")
                r = self.guard(lambda: I.call_raw("scheduler::runtime::Runtime::do_action", [Ptr([scher], 0), Ptr([action], 0)], None), "return_to_act")
                self.action_results.append(("return_to_act", self.py(action), r.d == 0 if r is not None else None))
            else:
                raise Unsupported("job kind " + jk)
        else:
            sig = self.channel.pop(idx)
            self.guard(lambda: self.scheduler_next(sig), "scheduler")

    def guard(self, f, where):
        try:
            return f()
        except RustPanic as e:
            self.panics.append((where, e.msg))
            return None

    def scheduler_task_arm(self):
        """The calls the Signal::Task arm of the real Scheduler::next makes, read from its MIR (the async state machine itself is not executed):
        names of the repo functions called, in block order.  Used to transcribe the arm: does it take a lock before Task::exec?"""
        if getattr(self, "_sched_arm", None) is not None:
            return self._sched_arm
        calls = []
        for name, it in self.I.p.items.items():
            if "scheduler::scheduler" in name and name.endswith("::next::{closure#0}"):
                for bb in sorted(it.blocks):
                    for st in it.blocks[bb].stmts():
                        if st[0] == "call" and st[2][0] == "fn":
                            calls.append(st[2][1])
        self._sched_arm = calls
        return calls

    def scheduler_next(self, sig):
        """Body of Scheduler::next for one received signal (the async shell is tokio's; the Signal::Task arm is transcribed from the source:
        [take the lock the arm takes, if any,] create_context, exec, and on Err set_err + emit_error)."""
        I = self.I
        if sig.vn != "Task":
            return
        task = sig.f[0]
        arm = self.scheduler_task_arm()
        exec_at = next((i for i, c in enumerate(arm) if c.endswith("Task::exec")), None)
        if exec_at is None:
            raise Unsupported("Scheduler::next no longer calls Task::exec: the transcription of its Signal::Task arm is out of date")
        guards = []
        for c in arm[:exec_at]:
            if c.endswith("Process::lock_actions"):
                proc = deref_all(I.call_raw(T + "::proc", [Ptr(task.c, 0)], None))   # &Task -> &Arc<Process> -> the Process
                if not (isinstance(proc, Agg) and str(getattr(proc, "ty", "")).endswith("Process")):
                    raise Unsupported("scheduler arm: Task::proc did not yield the process")
                guards.append(I.call_raw("scheduler::process::process::Process::lock_actions", [Ptr([proc], 0)], None))
            elif "::lock" in c and "Mutex" in c:
                raise Unsupported("Scheduler::next takes a lock the transcription does not know: " + c)
        try:
            ctx = I.call_raw(T + "::create_context", [Ptr([task], 0)], None)
            r = I.call_raw(T + "::exec", [Ptr([task], 0), Ptr([ctx], 0)], None)
            if r.d == 1:
                # the unwrap_or_else closure of Scheduler::next: set_err + emit_error
                e = I.call_raw("<error::ActError as std::convert::Into<error::Error>>::into", [r.f[0]], None)
                I.call_raw(T + "::set_err", [Ptr(task.c, 0), Ptr([e], 0)], None)
                I.call_raw("scheduler::context::Context::emit_error", [Ptr([ctx], 0)], None)
        finally:
            if I.race is not None:
                for g in guards:
                    I.race.dropped(g)

    def drain(self, max_steps=400):
        """Run enabled work until nothing is enabled (quiescence)."""
        steps = 0
        while True:
            en = self.enabled()
            if not en:
                return steps
            steps += 1
            if steps > max_steps:
                raise Unsupported("drain: step bound exceeded (possible livelock)")
            # 'send' jobs only move a signal into the channel: model channel as unordered pending set by
            # running all send jobs first, then choosing among signals and other jobs.
            sends = [i for i, (k, c) in enumerate(self.jobs) if k == "send"]
            if sends:
                self.run_one("job", sends[0])
                continue
            if len(en) == 1 or self.policy == "fifo":
                k, i = en[0]
            elif self.policy == "lifo":
                k, i = en[-1]
            else:
                d = self.I.path.choose(len(en), "sched")
                k, i = en[d]
            self.run_one(k, i)

    # ------------------------------------------------------------------ client API
    def model(self, d):
        return from_json(self.I, py_to_json(d), "model::workflow::Workflow")

    def start(self, model_dict, options=None):
        I = self.I
        m = self.model(model_dict)
        opts = self.vars_of(options or {})
        r = I.call_raw("scheduler::runtime::Runtime::start", [Ptr([self.rt], 0), Ptr([m], 0), Ptr([opts], 0)], None)
        if r.d == 0:
            return r.f[0]
        return r

    def action(self, pid, tid, event, options=None):
        """event: variant name of EventAction, or a z3 Int discriminant."""
        I = self.I
        if isinstance(event, str):
            d = I.p.src.enum_variant("EventAction", event)
            ev = Enum("EventAction", d, [], event)
        else:
            ev = Enum("EventAction", event, [], None)
        act = self.mk_struct("Action", pid=pid, tid=tid, event=ev, options=self.vars_of(options or {}))
        r = self.guard(lambda: I.call_raw("scheduler::runtime::Runtime::do_action", [Ptr([self.rt], 0), Ptr([act], 0)], None), "do_action")
        res = None if r is None else (r.d == 0)
        self.action_results.append(("client", dict(pid=pid, tid=tid, event=event if isinstance(event, str) else "sym"), res))
        return r

    def tick(self):
        I = self.I
        I.call_raw("event::emitter::Emitter::emit_tick", [Ptr(self.emitter.c, 0)], None)

    # ------------------------------------------------------------------ inspection
    def proc(self, pid):
        procs = self.field(self.cache.c[0], "Cache", "procs")
        kb = procs.d.get(pid)
        return kb.v if kb is not None else None

    def procs(self):
        procs = self.field(self.cache.c[0], "Cache", "procs")
        return [procs.d[k].v for k in procs.keys()]

    def tasks(self, proc):
        p = proc.c[0]
        tt = self.field(p, "Process", "tasks").c[0].f[0]
        maps = self.field(tt, "TaskTree", "maps")
        return [maps.d[k].v for k in maps.keys()]

    def task_info(self, t):
        tk = t.c[0]
        f = lambda n: self.field(tk, "Task", n)
        node = f("node").c[0]
        content = self.field(node, "Node", "content")
        st = f("state").c[0].f[0]
        return dict(
            pid=f("pid"), tid=f("id"), nid=self.field(node, "Node", "id"), kind=content.vn, level=self.field(node, "Node", "level"),
            state=STATE_NAMES[st.d] if isinstance(st.d, int) else st.d, prev=self.py(f("prev").c[0].f[0]),
            data=self.py(f("data").c[0].f[0]), err=self.py(f("err").c[0].f[0]), start_time=f("start_time").c[0].f[0],
            end_time=f("end_time").c[0].f[0], timestamp=f("timestamp"), uses=self.py(self.field(content.f[0], "Act", "uses")) if content.vn == "Act" else "",
            hooks=sorted(str(k) for k in f("hooks").c[0].f[0].d.keys()),
        )

    def proc_state(self, proc):
        st = self.field(proc.c[0], "Process", "state").c[0].f[0]
        return STATE_NAMES[st.d]

    # ------------------------------------------------------------------ monitors
    def install_monitors(self):
        I = self.I
        W = _WorldProxy(I)

        def find(method):
            for (k_ty, k_tr, k_m), its in I.p.impls.items():
                if k_m == method and k_ty == "Task" and k_tr is None:
                    for it in its:
                        if "scheduler::process::task" in it.name:
                            return it
            raise Unsupported("monitor target Task::" + method)

        def cur_state(task_ref):
            tk = deref_all(task_ref)
            st = W.field(tk, "Task", "state").c[0].f[0]
            return tk, st.d

        def pre_set_state(how):
            def pre(I, item, args):
                tk, old = cur_state(args[0])
                new = args[1].d
                W.trace.append(dict(pid=W.field(tk, "Task", "pid"), tid=W.field(tk, "Task", "id"), old=old, new=new, how=how,
                                    nmsg=len(W.messages), kind=W.field(W.field(tk, "Task", "node").c[0], "Node", "content").vn))

            return pre

        def pre_new(I, item, args):
            # creation of a task (the verif hook records the same entry in the real engine's trace): how="new", no state change
            node = deref_all(args[2])
            proc = deref_all(args[0])
            W.trace.append(dict(pid=W.field(proc, "Process", "id"), tid=args[1], old=0, new=0, how="new", nmsg=len(W.messages), kind=W.field(node, "Node", "content").vn))

        def post_set_state(I, item, args, ret):
            # the write is visible now (the real hook records the same second entry)
            tk = deref_all(args[0])
            st = args[1].d
            W.trace.append(dict(pid=W.field(tk, "Task", "pid"), tid=W.field(tk, "Task", "id"), old=st, new=st, how="set_state_done", nmsg=len(W.messages),
                                kind=W.field(W.field(tk, "Task", "node").c[0], "Node", "content").vn))

        I.monitors_post[find("set_state").name] = post_set_state
        I.monitors_pre[find("new").name] = pre_new
        I.monitors_pre[find("set_state").name] = pre_set_state("set_state")
        I.monitors_pre[find("set_pure_state").name] = pre_set_state("set_pure_state")
