"""C01 Progress: a quiescent unfinished process always waits on a client."""
from mirsym.harness import Check
from . import scen

QUICK = ["one_irq", "seq2", "if_else_first", "if_else_last", "two_if", "two_if_else", "needs", "needs_first", "step_if", "nested",
         "empty_branch", "catch_act", "msg_set", "tail_if", "branch_tail_if", "par_block", "seq_block"]


def main(tier, seed):
    c = Check("C01", tier, seed)
    jobs = []
    names = QUICK if tier == "quick" else scen.flow_names()
    for n in names:
        for pol in (("fifo", "lifo") if tier == "quick" else ("explore",)):
            jobs.append(("props.flow", "run_scenario", (n, dict(policy=pol, k=0, oracles=("c01",), max_paths=300 if tier == "quick" else 3000,
                                                                 answer_choice=(tier != "quick"), seed=seed), "C01")))
    c.run_jobs(jobs)
    return c.finish(
        rule="one path = one scenario skeleton x one feasible valuation class of the symbolic start inputs x one schedule; distinct = distinct decision sequence",
        assumptions=ASSUME, bounds=dict(scenarios=names, queue_policy="FIFO and LIFO" if tier == "quick" else "all orders", script="answer every open interrupt with complete"))


ASSUME = [
    "environment model of mirsym/world.py: one scheduler signal / spawned job / client action is atomic",
    "tokio queue modelled as an unordered pending set (quick tier: FIFO and LIFO service only)",
    "QuickJS replaced by the expression model of mirsym/jsmodel.py (identifiers, ints, comparisons, boolean connectives)",
    "clock strictly increasing, ids fresh and distinct, jsonschema validation succeeds",
    "std containers, serde and moka replaced by the models in mirsym/intr_*.py",
]
