"""C02 Task lifecycle: only legal transitions, terminal states are final."""
from mirsym.harness import Check
from . import scen
from .C01 import ASSUME

QUICK = ['seq2', 'two_if', 'catch_act', 'catch_step', 'par_block']


def main(tier, seed):
    c = Check("C02", tier, seed)
    jobs = []
    names = QUICK if tier == "quick" else list(scen.catalogue().keys())
    k = 2 if tier == "quick" else 3
    parts = 4 if tier == "quick" else 16
    for n in names:
        for i in range(parts):
            jobs.append(("props.flow", "run_scenario", (n, dict(policy="fifo", k=k, oracles=("c02",), targets="acts", skip_running_acts=True, part=(i, parts),
                                                                 max_paths=600 if tier == "quick" else 20000, seed=seed), "C02")))
        jobs.append(("props.flow", "run_scenario", (n, dict(policy="lifo", k=1, oracles=("c02",), targets="all", skip_running_acts=True, max_paths=400, seed=seed), "C02")))
    # longer histories over a small vocabulary: complete / back / cancel / error on a two-step flow (back followed by cancel of the old instance etc.)
    for i in range(4):
        jobs.append(("props.flow", "run_scenario", ("two_steps", dict(policy="fifo", k=3 if tier == "quick" else 4, kinds=["Next", "Back", "Cancel", "Error"], oracles=("c02",), targets="acts",
                                                                     skip_running_acts=True, part=(i, 4), max_paths=1500 if tier == "quick" else 20000, seed=seed), "C02")))
    c.run_jobs(jobs)
    return c.finish(
        rule="one path = scenario x valuation class of the symbolic inputs x (target task, symbolic action kind) per script step x schedule",
        assumptions=ASSUME + ["'reported terminal' = a task event was emitted for the task while in a terminal state"],
        bounds=dict(scenarios=names, script_len=k, action_kinds=10, targets="every act task (fifo runs, k steps) / every task (lifo runs, 1 step)"))
