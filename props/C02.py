"""C02 Task lifecycle: only legal transitions, terminal states are final."""
from mirsym.harness import Check
from .C01 import ASSUME
from .plan import scripted_jobs

QUICK = ['seq2', 'two_if', 'catch_act', 'catch_step', 'par_block']


def main(tier, seed):
    c = Check("C02", tier, seed)
    jobs, bounds = scripted_jobs("C02", "c02", QUICK, tier, seed, extra=dict(skip_running_acts=True))
    c.run_jobs(jobs)
    if tier != "quick":
        c.run_kani(['state_predicates_partition'])
    return c.finish(
        rule="one path = scenario x valuation class of the symbolic inputs x (target task, symbolic action kind) per script step x schedule",
        assumptions=ASSUME + ["'reported terminal' = a task event was emitted for the task while in a terminal state"],
        bounds=bounds)
