"""C03 Hierarchical completion and exactly one terminal event per process."""
from mirsym.harness import Check
from . import scen
from .C01 import ASSUME

QUICK = ['seq2', 'two_if', 'if_else_first', 'catch_act', 'cancel_par']


def main(tier, seed):
    c = Check("C03", tier, seed)
    jobs = []
    names = QUICK if tier == "quick" else list(scen.catalogue().keys())
    k = 2 if tier == "quick" else 3
    parts = 4 if tier == "quick" else 16
    names = [n for n in names if not n.startswith("c04:")]
    for n in names:
        # generated (parallel) groups: only complete / cancel histories are explored; skip / back / abort / remove inside one generated
        # group leave the sibling groups open (observed, see DESIGN.md findings) and are not classified further here
        extra = dict(kinds=["Next", "Cancel"]) if n in ("cancel_par", "par_block", "seq_block") else {}
        for i in range(parts):
            jobs.append(("props.flow", "run_scenario", (n, dict(extra, policy="fifo", k=k, oracles=("c03",), targets="acts", part=(i, parts),
                                                                 max_paths=600 if tier == "quick" else 20000, seed=seed), "C03")))
        jobs.append(("props.flow", "run_scenario", (n, dict(extra, policy="lifo", k=1, oracles=("c03",), targets="all", max_paths=400, seed=seed), "C03")))
    # histories with fired timeout rules (symbolic clock): the handler steps started beneath a task are part of its hierarchy
    for rules, on_step in ((["1s"], True), (["1s"], False), (["1s", "1m"], True)):
        jobs.append(("props.timeouts", "run_rules", (rules, on_step, dict(policy="fifo", k=2 if tier == "quick" else 3, oracles=("c03",), max_paths=300 if tier == "quick" else 3000), "C03")))
    c.run_jobs(jobs)
    return c.finish(
        rule="one path = scenario x valuation class of the symbolic inputs x (target task, symbolic action kind) per script step x schedule",
        assumptions=ASSUME + ["'reported terminal' = a task event was emitted for the task while in a terminal state"],
        bounds=dict(scenarios=names, script_len=k, action_kinds=10, targets="every act task (fifo runs, k steps) / every task (lifo runs, 1 step)"))
