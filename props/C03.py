"""C03 Hierarchical completion and exactly one terminal event per process."""
from mirsym.harness import Check
from .C01 import ASSUME
from .plan import scripted_jobs

QUICK = ['seq2', 'two_if', 'if_else_first', 'catch_act', 'cancel_par', 'par_block']


def main(tier, seed):
    c = Check("C03", tier, seed)
    # acts generated at run time (acts.core.parallel / sequence block): only complete / cancel histories are explored; skip / back / abort / remove inside
    # one generated group leave the sibling groups open (observed, see DESIGN.md findings) and are not classified further here.  A parallel block of
    # declared acts (par_block) is explored with every action kind.
    jobs, bounds = scripted_jobs("C03", "c03", QUICK, tier, seed, generated_kinds=["Next", "Cancel"])
    # histories with fired timeout rules (symbolic clock): the handler steps started beneath a task are part of its hierarchy
    for rules, on_step in ((["1s"], True), (["1s"], False), (["1s", "1m"], True)):
        jobs.append(("props.timeouts", "run_rules", (rules, on_step, dict(policy="fifo", k=2 if tier == "quick" else 3, oracles=("c03",), max_paths=300 if tier == "quick" else 3000), "C03")))
    c.run_jobs(jobs)
    bounds["timeout_histories"] = "rules 1s / 1s+1m on a step or an act, 2 (thorough 3) events from {tick, close the act}, symbolic clock, then every open interrupt is completed"
    return c.finish(
        rule="one path = scenario x valuation class of the symbolic inputs x (target task, symbolic action kind) per script step x schedule",
        assumptions=ASSUME + ["'reported terminal' = a task event was emitted for the task while in a terminal state"],
        bounds=bounds)
