"""C04 Control flow conforms to the YAML: order, branch selection, skips."""
from mirsym.harness import Check
from . import scen
from .C01 import ASSUME


def names(tier):
    fam = [n for n in scen.c04_family(3) if not ("else" in n and "needs" in n)]
    if tier == "quick":
        # every 2-branch shape, every 3-branch shape containing an else or a needs branch, and the structured ones
        fam = [n for n in fam if n.count(",") == 1 or "else" in n or "needs" in n or not n.startswith("c04:if")]
    return fam


def main(tier, seed):
    c = Check("C04", tier, seed)
    jobs = []
    ns = names(tier)
    for n in ns:
        small = n.count(",") <= 1 or "needs2" in n or not n.startswith("c04:if")
        for pol in (("fifo", "lifo") if tier == "quick" else ("explore", "fifo", "lifo")):
            if tier == "quick":
                cfg = dict(max_paths=600 if "needs2" in n else 200, answer_choice=("needs2" in n))
            elif pol == "explore":
                # every queue service order; the answer order is a decision only on the small shapes (it multiplies the paths by up to n!)
                cfg = dict(max_paths=1500, answer_choice=small)
            else:
                cfg = dict(max_paths=600, answer_choice=True)
            jobs.append(("props.flow", "run_scenario", (n, dict(cfg, policy=pol, k=0, oracles=("c04",), seed=seed), "C04")))
    # "the result does not depend on thread scheduling": two client threads complete two different open acts of one process; the second call runs at
    # ONE lock operation of the first (every one of them) or after it; the same reference interpreter and the hierarchy oracle judge the outcome
    for n in (("two_if", "par_block") if tier == "quick" else ("two_if", "par_block", "two_if_else", "catch_nested_par")):   # `nested` never has two acts open at once: no pair to race
        # the reference interpreter covers steps / branches / plain acts; block and generator skeletons are judged by the hierarchy oracle only
        orc = ("c03",) if n in ("par_block", "catch_nested_par") else ("c03", "c04")
        jobs.append(("props.race", "run_pair_race", (n, dict(oracles=orc, keep=True, max_paths=400 if tier == "quick" else 3000, seed=seed), "C04")))
    # ... and a client action against the scheduler's worker: the client completes one act (no waiting), the signals this creates are pending, and the
    # client's next completion runs while the worker executes one of them (either side pre-empted at one lock operation)
    for n in (("two_branches_msg",) if tier == "quick" else ("two_branches_msg", "two_seq_branches")):   # (par_block leaves no signal pending for the worker after a completion)
        orc = ("c03",) if n == "par_block" else ("c03", "c04")
        jobs.append(("props.race", "run_pair_race", (n, dict(oracles=orc, keep=True, with_scheduler=True, max_paths=800 if tier == "quick" else 4000, seed=seed), "C04")))
    c.run_jobs(jobs)
    return c.finish(
        rule="one path = generated workflow (branch kinds if/else/needs in every declaration order, conditional steps and acts, nesting) x feasible valuation class of the "
             "comparison conditions over the integer inputs x, y (decided by z3) x schedule; the final task list and the state-write order are compared with a reference interpreter",
        assumptions=ASSUME + ["thread scheduling: two client threads, and a client thread against the scheduler's worker executing ONE pending signal; one pre-emption at a lock operation (see C05); the "
                             "Signal::Task arm of Scheduler::next is transcribed from its MIR (the lock it takes, create_context, exec, error handling), the async state machine itself is not executed; "
                             "timer ticks racing with actions are outside the model", "a step whose branches combine an else branch with a needs branch is outside the grammar (the property does not say which wins)",
                             "number of OS worker threads is not modelled (queue service order is)"],
        bounds=dict(scenarios=len(ns), branches="2..3 per step", nesting=2, inputs="x, y in -3..8", backward_next="not included"))
