"""C05 Client actions: admission rules and at-most-once effect."""
from mirsym.harness import Check
from . import scen, race
from .plan import scripted_jobs
from .C01 import ASSUME

QUICK = ['seq2', 'two_if', 'catch_act', 'msg_set', 'par_block', 'outs_act']


def main(tier, seed):
    c = Check("C05", tier, seed)
    jobs, bounds = scripted_jobs("C05", "c05", QUICK, tier, seed, extra=dict(skip_running_acts=True, omit_outputs=True), error_scripts=False)
    # back with a target that is not in the act's history: refused, and nothing changes
    for n in (QUICK if tier == "quick" else scen.flow_names()):
        jobs.append(("props.flow", "run_scenario", (n, dict(policy="fifo", k=1, kinds=["Back"], bad_to=True, oracles=("c05",), targets="acts", skip_running_acts=True, max_paths=300, seed=seed), "C05")))
    # last clause: concurrent identical actions (two model threads, one pre-emption, every lock operation of the first as switch point)
    race_scen = ["seq2", "catch_act"] if tier == "quick" else ["seq2", "catch_act", "two_if", "par_block", "outs_act", "nested"]
    for n in race_scen:
        for kind in race.CLOSERS:
            for pre in ((0,) if tier == "quick" else (0, 1)):
                jobs.append(("props.race", "run_race", (n, dict(kinds=[kind], pre=pre, keep=True, max_paths=1500 if tier == "quick" else 6000, seed=seed), "C05")))
    c.run_jobs(jobs)
    return c.finish(
        rule="one path = scenario x valuation class of the symbolic inputs x (target task, symbolic action kind, declared output supplied or omitted) per script step x schedule; "
             "race runs: one path = scenario x open act x closing action kind x the lock operation of thread A at which thread B's identical call runs to completion (or after A)",
        assumptions=ASSUME + ["race clause: 2 threads (the property says 2..8), context bound = one switch into the second caller and back; lock acquisitions are the only switch points (the engine's shared "
                             "state is only reached through std RwLock / Mutex); schedules in which the second caller would block on a lock the first holds need a further switch and are outside the bound "
                             "(counted as infeasible_or_out_of_bound_paths); jobs spawned by the two calls run after both returned", "'reported terminal' = a task event was emitted for the task while in a terminal state"],
        bounds=dict(bounds, race_scenarios=race_scen, race_kinds=race.CLOSERS, race_threads=2, race_preemptions=1))
