"""C05 Client actions: admission rules and at-most-once effect."""
from mirsym.harness import Check
from . import scen, race
from .C01 import ASSUME

QUICK = ['seq2', 'two_if', 'catch_act', 'msg_set', 'par_block', 'outs_act']


def main(tier, seed):
    c = Check("C05", tier, seed)
    jobs = []
    names = QUICK if tier == "quick" else list(scen.catalogue().keys())
    k = 2 if tier == "quick" else 3
    parts = 4 if tier == "quick" else 16
    for n in names:
        for i in range(parts):
            jobs.append(("props.flow", "run_scenario", (n, dict(policy="fifo", k=k, oracles=("c05",), targets="acts", skip_running_acts=True, omit_outputs=True, part=(i, parts),
                                                                 max_paths=600 if tier == "quick" else 20000, seed=seed), "C05")))
        jobs.append(("props.flow", "run_scenario", (n, dict(policy="lifo", k=1, oracles=("c05",), targets="all", skip_running_acts=True, omit_outputs=True, max_paths=400, seed=seed), "C05")))
    # last clause: concurrent identical actions (two model threads, one pre-emption, every lock operation of the first as switch point)
    race_scen = ["seq2", "catch_act"] if tier == "quick" else ["seq2", "catch_act", "two_if", "par_block", "outs_act", "nested"]
    for n in race_scen:
        for kind in race.CLOSERS:
            for pre in ((0,) if tier == "quick" else (0, 1)):
                jobs.append(("props.race", "run_race", (n, dict(kinds=[kind], pre=pre, keep=True, max_paths=1500 if tier == "quick" else 6000, seed=seed), "C05")))
    # longer histories over a small vocabulary: complete / back / cancel / error on a two-step flow (back followed by cancel of the old instance etc.)
    for i in range(4):
        jobs.append(("props.flow", "run_scenario", ("two_steps", dict(policy="fifo", k=3 if tier == "quick" else 4, kinds=["Next", "Back", "Cancel", "Error"], oracles=("c05",), targets="acts",
                                                                     skip_running_acts=True, part=(i, 4), max_paths=1500 if tier == "quick" else 20000, seed=seed), "C05")))
    c.run_jobs(jobs)
    return c.finish(
        rule="one path = scenario x valuation class of the symbolic inputs x (target task, symbolic action kind, declared output supplied or omitted) per script step x schedule; "
             "race runs: one path = scenario x open act x closing action kind x the lock operation of thread A at which thread B's identical call runs to completion (or after A)",
        assumptions=ASSUME + ["race clause: 2 threads (the property says 2..8), context bound = one switch into the second caller and back; lock acquisitions are the only switch points (the engine's shared "
                             "state is only reached through std RwLock / Mutex); schedules in which the second caller would block on a lock the first holds need a further switch and are outside the bound "
                             "(counted as infeasible_or_out_of_bound_paths); jobs spawned by the two calls run after both returned", "'reported terminal' = a task event was emitted for the task while in a terminal state"],
        bounds=dict(scenarios=names, script_len=k, action_kinds=10, targets="every act task (fifo runs, k steps) / every task (lifo runs, 1 step)"))
