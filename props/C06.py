"""C06 Errors propagate upward unless a matching catch takes them, exactly once."""
from mirsym.harness import Check
from . import scen
from .C01 import ASSUME

QUICK = ["catch_act", "catch_step", "catch_empty", "catch_nomatch_then_step", "catch_two_codes", "catch_outer_step_branch", "catch_none", "catch_all_and_code", "two_if", "catch_nested_par", "catch_in_catch", "catch_multi_step"]


def main(tier, seed):
    c = Check("C06", tier, seed)
    jobs = []
    for n in QUICK:
        for pol in (("fifo", "lifo") if tier == "quick" else ("explore",)):
            jobs.append(("props.flow", "run_scenario", (n, dict(policy=pol, k=0, error_script=True, errors=2, oracles=("c06",), max_paths=400 if tier == "quick" else 5000,
                                                                 answer_choice=(tier != "quick"), seed=seed), "C06")))
    # errors the engine raises itself while initialising an act (package not installed / no `uses`)
    for n in ("init_err_own_catch", "init_err_step_catch", "init_err_uncaught"):
        for pol in ("fifo", "lifo"):
            jobs.append(("props.flow", "run_scenario", (n, dict(policy=pol, k=0, engine_errors=["x1"], oracles=("c06",), max_paths=100, seed=seed), "C06")))
    c.run_jobs(jobs)
    return c.finish(
        rule="one path = catch placement scenario x symbolic inputs x (open act chosen, error code from {e1,e2}) x schedule; then every open interrupt is completed",
        assumptions=ASSUME + ["error sources: client error action; act initialisation failing because its package is not installed or `uses` is empty (failing scripts and schema violations are not separately enumerated)"],
        bounds=dict(scenarios=QUICK, codes=["e1", "e2"], nesting="catch on act and/or enclosing step"))
