"""C07 Data flow: inputs, act outputs and workflow outputs follow the scoping rules."""
from mirsym.harness import Check
from .C01 import ASSUME
from . import data


def main(tier, seed):
    c = Check("C07", tier, seed)
    jobs = []
    for n in data.scenarios():
        for pol in (("fifo", "lifo") if tier == "quick" else ("explore",)):
            jobs.append(("props.data", "data", ("C07", n, pol, 100 if tier == "quick" else 3000)))
    c.run_jobs(jobs)
    return c.finish(
        rule="workflows of the set / code / irq fragment whose written values, start values and client options are z3 integers; every condition, template and script evaluation is "
             "intercepted with the variables the real Task::vars hands to the script engine; writes are recorded where a value enters the engine (parameters a set act executes with, "
             "arguments of $set, options of an accepted client action), not where the engine stores it; 'a reader sees the last value written to the "
             "declaring scope', 'terminal outputs = declared keys + data with the last value written', 'options are cut to declared outputs' and 'private keys stay local' are checked, "
             "value equalities by z3 validity queries",
        assumptions=ASSUME + ["each name is declared (as an input) in at most one enclosing scope; JavaScript beyond the modelled fragment is outside the claim",
                             "isolation between processes is C13's subject"],
        bounds=dict(scenarios=list(data.scenarios().keys()), values="integers 0..10"))
