"""C08 Message stream is a faithful, ordered image of task lifecycles."""
from mirsym.harness import Check
from .C01 import ASSUME
from .plan import scripted_jobs

QUICK = ['seq2', 'two_if', 'catch_act', 'msg_set', 'step_if', 'par_block']


def main(tier, seed):
    c = Check("C08", tier, seed)
    jobs, bounds = scripted_jobs("C08", "c08", QUICK, tier, seed, extra=dict(skip_running_acts=True))
    c.run_jobs(jobs)
    return c.finish(
        rule="one path = scenario x valuation class of the symbolic inputs x (target task, symbolic action kind) per script step x schedule",
        assumptions=ASSUME + ["'reported terminal' = a task event was emitted for the task while in a terminal state"],
        bounds=bounds)
