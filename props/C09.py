"""C09 Acknowledged delivery: at-least-once, bounded retries, silent after ack."""
from mirsym.harness import Check
from .C01 import ASSUME


def main(tier, seed):
    c = Check("C09", tier, seed)
    jobs = [("props.store", "channel_store", ("C09",)), ("props.store", "tick_handler", ("C09",))]
    plan = [(1, 3, 4), (2, 2, 12)] if tier == "quick" else [(1, 4, 8), (2, 3, 16), (3, 2, 16)]
    for n, k, parts in plan:
        for i in range(parts):
            jobs.append(("props.store", "retry", ("C09", n, k, 1500 if tier == "quick" else 30000, (i, parts))))
    c.run_jobs(jobs)
    if tier != "quick":
        c.run_kani(['message_status_codec'])
    return c.finish(
        rule="n stored messages with symbolic status / retry_times / update_time, symbolic retry limit (1..3), interval and clock readings; k operations from {tick, ack, action, redo, clear}; "
             "after every operation each message is compared with the reference retry automaton (obligations are z3 validity queries)",
        assumptions=[a for a in ASSUME if "QuickJS" not in a] + [
            "retry automaton: the tick is the body of the on_tick closure's message part (Store::with_no_response_messages) called with a recording handler; "
            "a third driver goes through the engine's real on_tick closure (Emitter::emit_tick) with an idle engine / a running process / a finished process next to the message",
            "only the in-memory backend executes the queries; the SQLite execution of the same queries is outside the claim",
            "the clock is an arbitrary non-decreasing sequence of readings (one symbolic variable per reading)"],
        bounds=dict(plan="(messages, operations) in %s" % ([(n, k) for n, k, _ in plan],), retry_limit="1..3", status="0..3", retry_times="0..4"))
