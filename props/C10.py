"""C10 Store contract: faithful records and one query semantics on every backend (memory backend part)."""
from mirsym.harness import Check
from .C01 import ASSUME

TYPES = ["Model", "Proc", "Task", "Message", "Package", "Event"]
# (rows, conds, exprs per cond, order?, paging?)
QUICK_SHAPES = [(2, 1, 1, 0, 0), (3, 1, 1, 0, 0), (2, 1, 2, 0, 0), (2, 2, 1, 0, 0), (2, 0, 0, 1, 0), (3, 0, 0, 1, 0), (2, 1, 1, 1, 1), (3, 0, 0, 1, 1), (3, 0, 0, 0, 1), (2, 0, 0, 2, 0), (3, 0, 0, 2, 0)]
THOROUGH_SHAPES = QUICK_SHAPES + [(3, 1, 2, 0, 0), (3, 2, 1, 0, 0), (2, 2, 2, 0, 0), (3, 1, 1, 1, 1), (3, 1, 2, 1, 0)]


def main(tier, seed):
    c = Check("C10", tier, seed, which=("acts", "sqlite"))
    jobs = [("props.store", "roundtrip", (t, "C10")) for t in TYPES]
    # SQLite backend, row-mapper part: the real create / find / update / delete / exists of acts-store-sqlite on a table model (props/sqlite.py)
    jobs += [("props.sqlite", "roundtrip", (t, "C10")) for t in TYPES]
    shapes = QUICK_SHAPES if tier == "quick" else THOROUGH_SHAPES
    for sh in shapes:
        heavy = sh[1] * sh[2] >= 2 or (sh[3] and sh[4]) or sh[3] >= 2
        parts = (4 if tier == "quick" else 8) if heavy else 1
        for i in range(parts):
            jobs.append(("props.store", "query", ("C10", sh, 1500 if tier == "quick" else 20000, (i, parts) if parts > 1 else None)))
    c.run_jobs(jobs)
    return c.finish(
        rule="SQLite row mappers: create / find / update / delete / exists of the six SQLite collections run on the crate's MIR with sea-query and rusqlite replaced by a table model (a built "
             "statement is the structure the builder calls describe); every field is read back from the column it was written to (validity for symbolic integer fields); counterexamples are "
             "replayed through the real SQLite plugin. memory backend: obligation = (record type, field) equality after create/update/delete, or (query shape, row) membership / count / order / paging; every obligation is a z3 validity query under the path condition",
        assumptions=[a for a in ASSUME if "QuickJS" not in a] + [
            "memory backend: everything; SQLite backend: only the row mappers of create / find / update / delete / exists (sea-query and rusqlite are a table model: the SQL text, SQLite itself and the "
            "filter / order / paging translation of `query` are NOT covered, nor is 'both backends agree' beyond the mapped fields)",
            "symbolic columns are integers in 0..1000 (0..6 for filter operands); string fields are pairwise distinct constants"],
        bounds=dict(record_types=TYPES, query_shapes="(rows, conds, exprs/cond, order, paging) in %s" % (shapes,), ints="0..1000", operators=6),
        explanation="counterexamples are replayed on the real memory backend through the engine's registered collections (replay op store_query / store_roundtrip)")
