"""C11 The store always holds a complete image of what the engine knows."""
from mirsym.harness import Check
from . import scen
from .C01 import ASSUME

QUICK = ["seq2", "two_if", "catch_act", "msg_set", "par_block", "env_flow", "catch_none", "if_else_last", "if_else_first", "needs", "two_scope_vars"]


def main(tier, seed):
    c = Check("C11", tier, seed)
    jobs = []
    names = QUICK if tier == "quick" else [n for n in scen.flow_names() if n != "auto"]   # auto finishes (and is removed) before the first quiescent point
    k = 1 if tier == "quick" else 2
    parts = 2 if tier == "quick" else 8
    for n in names:
        for i in range(parts):
            jobs.append(("props.flow", "run_scenario", (n, dict(policy="fifo", k=k, oracles=("c11",), targets="acts", skip_running_acts=True, part=(i, parts),
                                                                 max_paths=400 if tier == "quick" else 10000, seed=seed), "C11")))
        # keep_processes: the rows of an ended process stay and must show the states its tasks ended in (abort / error / skip endings included)
        if tier != "quick" or n in QUICK[:6]:
            jobs.append(("props.flow", "run_scenario", (n, dict(policy="fifo", k=1, keep=True, kinds=["Next", "Abort", "Skip", "Error", "Submit"], oracles=("c11",), targets="acts",
                                                                 skip_running_acts=True, max_paths=300 if tier == "quick" else 2000, seed=seed), "C11")))
        jobs.append(("props.flow", "run_scenario", (n, dict(policy="lifo", k=0, error_script=True, oracles=("c11",), max_paths=200, seed=seed), "C11")))
    c.run_jobs(jobs)
    return c.finish(
        rule="at every quiescent state of every path the task rows and the process row read back through the real (memory) collection are compared field by field with "
             "Task::into_data / Process::into_data of the live objects (field equality is a z3 validity query where values are symbolic)",
        assumptions=ASSUME + ["byte-level serialisation is modelled structurally (a stored string is the JSON value it encodes)"],
        bounds=dict(scenarios=names, script_len=k, backends="memory", keep_processes="default at every quiescent state; true: additionally the task states of the ended process (one action, then answer everything)"))
