"""C12 Restart / reload transparency at quiescent points (cache eviction + reload from the memory store)."""
from mirsym.harness import Check
from .C01 import ASSUME

QUICK = ["seq2", "two_if", "catch_act", "msg_set", "par_block", "seq_block", "env_flow", "if_else_last", "step_if", "params_template", "two_scope_vars", "tmo_reload", "no_ids", "catch_reload"]


def main(tier, seed):
    c = Check("C12", tier, seed)
    ev = 1 if tier == "quick" else 2
    jobs = [("props.multi", "reload", ("C12", n, ev, 60 if tier == "quick" else 1500)) for n in QUICK]
    c.run_jobs(jobs)
    if tier != "quick":
        c.run_kani(['state_string_roundtrip'])
    return c.finish(
        rule="self-composition inside one path: run A completes every interrupt in order; run B does the same with the process dropped from the cache before chosen answers, so the real "
             "Cache::proc / Store::load_proc / load_tasks / Node::from_str code rebuilds it from the rows; the client-visible summaries (task outcomes per node, message multiset, events and outputs) must be equal",
        assumptions=ASSUME + ["reload = eviction from the cache followed by the real lazy-load path on the memory store; a restart of the OS process and the SQLite store are outside the claim",
                             "stored strings are modelled structurally (JSON values), so byte-level serialisation faults are not visible"],
        bounds=dict(scenarios=QUICK, evictions_per_run=ev, script="complete every open interrupt, first open act first"))
