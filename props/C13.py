"""C13 Processes are isolated; outcome is independent of load, cache size and threads."""
from mirsym.harness import Check
from .C01 import ASSUME

PAIRS = [("seq2", "one_irq"), ("msg_set", "seq_block"), ("two_if", "catch_act"), ("env_flow", "msg_set")]


def main(tier, seed):
    c = Check("C13", tier, seed)
    jobs = []
    for a, b in PAIRS:
        for cap in ((1, None) if tier == "quick" else (1, 2, None)):
            jobs.append(("props.multi", "isolation", ("C13", a, b, cap, "fifo" if tier == "quick" else "explore", 40 if tier == "quick" else 1500)))
    # a process that finishes by itself while the other one is still being launched, default retention, every schedule
    for a, b in (("auto", "one_irq"), ("auto", "seq2")):
        jobs.append(("props.multi", "isolation", ("C13", a, b, 1, "explore", 120 if tier == "quick" else 3000, False)))
    # two processes of the same model with different inputs, both evicted, while a third one finishes: Cache::restore refills both rows in one batch
    for pol in ("fifo", "lifo"):
        jobs.append(("props.multi", "restore_batch", ("C13", pol, 60 if tier == "quick" else 600)))
    # a process waiting on a timeout rule next to a finished (kept) or a running process, either one first in the cache: the tick reaches it
    jobs.append(("props.multi", "tick_beside", ("C13", "fifo", 40)))
    c.run_jobs(jobs)
    return c.finish(
        rule="self-composition inside one path: each process alone (reference) and both together in one engine with a cache of capacity 1 / default, any live process evicted under "
             "capacity pressure (decision), answers interleaved (decision); per-process summaries must equal the solo summaries; a second start with a live pid must be refused; "
             "restore-batch: two processes of one model (different start inputs) are dropped from the cache (load from elsewhere), a third process finishes and the real Cache::restore / Store::load "
             "refill both rows in one batch; both then go on as they do alone",
        assumptions=ASSUME + ["moka's eviction policy is over-approximated: under capacity pressure any cached process may be the victim, at quiescent points only",
                             "the number of OS worker threads is not modelled; 2 processes (not 64)"],
        bounds=dict(pairs=PAIRS, capacities=[1, "default"], processes=2))
