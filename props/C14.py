"""C14 Script boundary keeps values intact; templates substitute every expression."""
from mirsym.harness import Check
from .C01 import ASSUME


def main(tier, seed):
    c = Check("C14", tier, seed)
    jobs = [("props.values", "roundtrip", ("C14", sh)) for sh in ("int", "array", "object", "string", "bool", "null")]
    jobs.append(("props.values", "templates", ("C14",)))
    jobs.append(("props.values", "float_out", ("C14",)))
    c.run_jobs(jobs)
    return c.finish(
        rule="values: the real ActValue::into_js and ActValue::from_js run on JSON values (scalar, array, nested object) whose integer leaf is one z3 variable n with |n| <= 2^53; "
             "'from_js(into_js(v)) equals v numerically' is a validity query (the i32 cast is a 64->32 bit wrap in the encoding). doubles leaving the script engine: from_js on a z3 real f = k or k + 1/2 with |k| <= 10^30 arrives numerically "
             "unchanged (float -> int `as` saturates in the encoding, as in Rust). templates: the real fill_params / get_exprs on a bounded "
             "set of template strings (0..3 expressions, with and without surrounding text, repeated expressions, values containing '$') with the variables of the modelled script fragment",
        assumptions=ASSUME + ["QuickJS is modelled as preserving what it is handed (32-bit ints, doubles, strings, arrays, objects); doubles are exact reals in the encoding (rounding of literals is not modelled); unicode normalisation is not modelled",
                             "templates: example strings, not a solver-quantified family"],
        bounds=dict(integer="|n| <= 2^53", double_out="|k| <= 10^30, integral or k + 1/2", shapes=["int", "array", "object", "string", "bool", "null"], templates=11))
