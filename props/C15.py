"""C15 Sub-process call and return."""
from mirsym.harness import Check
from .C01 import ASSUME


def main(tier, seed):
    c = Check("C15", tier, seed)
    jobs = []
    for shape in ("plain", "missing", "nested", "nested-missing", "unset-output"):
        for pol in (("fifo", "lifo") if tier == "quick" else ("explore",)):
            jobs.append(("props.subflow", "call", ("C15", shape, pol, 60 if tier == "quick" else 3000)))
    c.run_jobs(jobs)
    return c.finish(
        rule="parent and child (and grand-child) models are deployed and started through the real ModelExecutor / ProcessExecutor / subflow package; the call option and the child's result are "
             "z3 integers; the child is ended by complete / error / abort / skip (decision); link keys, child inputs, calling-act state, outputs, error code, number of return actions and event order "
             "are compared with the reference (value equalities by validity queries)",
        assumptions=ASSUME + ["the spawned return action is one atomic job interleaved with the other jobs at job granularity"],
        bounds=dict(shapes=["plain", "missing target model", "nested (depth 3)"], endings=["complete", "error", "abort", "skip"]))
