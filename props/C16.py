"""C16 Generated acts and lifecycle hooks run exactly as many times as specified."""
from mirsym.harness import Check
from .C01 import ASSUME


def main(tier, seed):
    c = Check("C16", tier, seed)
    jobs = []
    lens = (0, 1, 2, 3)
    pols = ("fifo", "lifo") if tier == "quick" else ("explore",)
    for mode in ("parallel", "sequence"):
        for n in lens:
            for inner in (1, 2, 3):   # 3: a chain of acts long enough to have a middle element
                # thorough: every service order up to 2 list elements; 3 elements under FIFO and LIFO (the orders of 6+ simultaneously open acts explode)
                for pol in (pols if (tier == "quick" or n <= 2) else ("fifo", "lifo")):
                    jobs.append(("props.gen", "generated", ("C16", mode, n, inner, pol, 60 if tier == "quick" else 400)))
    for outer in ("parallel", "sequence"):
        for inner in ("parallel", "sequence"):
            jobs.append(("props.gen", "nested", ("C16", outer, inner, "fifo", 20)))
    for on in ("step", "workflow", "act", "step-block", "step-generator"):
        for pol in pols:
            jobs.append(("props.gen", "hooks", ("C16", on, pol, 60 if tier == "quick" else 500)))
    c.run_jobs(jobs)
    return c.finish(
        rule="generators: one run per (mode, list length, acts per group, schedule class, completion order of open acts); group counts, simultaneity, order, ($index, $value) per group, "
             "generator completion and flow continuation are compared with reference counts. Hooks: five setup acts (created, completed, before_update, updated, step) on a step, "
             "the workflow or an act, with and without a pushed act; fired counts per lifecycle event are compared with the reference",
        assumptions=ASSUME,
        bounds=dict(list_lengths=list(lens), acts_per_group=[1, 2, 3], nesting="generator inside generator (2 x 3 elements)", hooks_on=["step", "workflow", "act"]))
