"""C17 Retention: finished processes leave exactly what the configuration says."""
from mirsym.harness import Check
from . import scen
from .C01 import ASSUME

QUICK = ["seq2", "two_if", "catch_none", "msg_set", "hook_completed_wf", "hook_completed_act"]


def main(tier, seed):
    c = Check("C17", tier, seed)
    jobs = []
    names = QUICK if tier == "quick" else QUICK + ["par_block", "catch_act", "if_else_last", "nested"]
    for n in names:
        for keep in (None, True):
            jobs.append(("props.flow", "run_scenario", (n, dict(policy="fifo", k=1, keep=keep, kinds=["Next", "Abort", "Skip", "Error", "Submit"], oracles=("c17",), targets="acts",
                                                                 skip_running_acts=True, max_paths=300 if tier == "quick" else 3000, seed=seed), "C17")))
    for keep in (None, True):
        for pol in ("fifo", "lifo"):
            jobs.append(("props.subflow", "retention", ("C17", pol, keep, 40 if tier == "quick" else 400)))
    # default retention with a cache of capacity 1 and two processes (one finishing by itself while the other is launched): every schedule, any victim
    for a, b in (("auto", "one_irq"), ("auto", "auto")):
        jobs.append(("props.multi", "isolation", ("C17", a, b, 1, "explore", 150 if tier == "quick" else 3000, False)))
    c.run_jobs(jobs)
    return c.finish(
        rule="one path = scenario x keep_processes in {default, true} x one symbolic client action (complete / abort / skip / error / submit; back and push histories are recorded under C03) x answer-all; after the terminal event the rows of "
             "the process are read back through the real memory collections; without keep_processes one more action is aimed at the finished process; "
             "plus: a parent calling a sub-process (child ended by complete / error / abort / skip): the child's rows are gone once it has delivered its terminal event while the running parent's stay",
        assumptions=ASSUME + ["memory backend only; the SQLite execution of the delete/query is outside the claim",
                             "rows of other processes and message rows: covered by the two-process runs of C13 (isolation oracle), not here"],
        bounds=dict(scenarios=names, keep_processes=["default", True]))
