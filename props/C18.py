"""C18 Channels deliver exactly the messages their filters select."""
from mirsym.harness import Check
from .C01 import ASSUME


def main(tier, seed):
    c = Check("C18", tier, seed)
    jobs = [("props.channels", "filters", ("C18", w)) for w in ("on_message", "on_start", "on_complete", "on_error")]
    jobs.append(("props.channels", "registry", ("C18",)))
    c.run_jobs(jobs)
    return c.finish(
        rule="filter: the real channel closure and is_match run with the six glob outcomes as free z3 booleans; 'handler invoked <=> type and state and (tag or model tag) and key and uses' is a "
             "validity query on every path (for the four event kinds). registry: every sequence of two operations from {re-register A, close A, unsub B, close B} followed by one emission "
             "of each kind; deliveries per (channel, kind, handler) are compared with the reference",
        assumptions=[a for a in ASSUME if "QuickJS" not in a] + ["globset's matching is an uninterpreted boolean function of (pattern, string); only '*' is interpreted (matches everything): "
                                                               "that globset implements glob syntax correctly is taken as given"],
        bounds=dict(channels=2, registry_ops=2, event_kinds=4))
