"""C19 Timeout rules fire once, never early, and only for open tasks."""
from mirsym.harness import Check
from .C01 import ASSUME

QUICK = [(["1s"], False), (["2m"], False), (["1s", "1m"], False), (["1s", "2s"], True), (["1h"], True), (["0s", "0m"], False), (["1d", "1s"], False),
         (["1s", "1s"], "both"), (["2s", "1s"], "both")]   # "both": rule 0 on the step, the others on its act
THOROUGH = QUICK + [(["1m", "1m", "1s"], "both"), (["2s", "2m", "2h"], False), (["1m", "1s"], True), (["3s", "1m", "1s"], False)]


def main(tier, seed):
    c = Check("C19", tier, seed)
    jobs = []
    plan = QUICK if tier == "quick" else THOROUGH
    k = 3 if tier == "quick" else 4
    for rules, on_step in plan:
        jobs.append(("props.timeouts", "run_rules", (rules, on_step, dict(policy="fifo", k=k, max_paths=600 if tier == "quick" else 6000), "C19")))
    # the timed task sits in a later step, opened a symbolic time after the process start: the rules count from the TASK's start
    for rules, on_step in ((["2s"], False), (["1m"], True), (["1s", "1s"], "both")):
        jobs.append(("props.timeouts", "run_rules", (rules, on_step, dict(policy="fifo", k=k, late=True, max_paths=600 if tier == "quick" else 6000), "C19")))
    # "not for finished tasks" under concurrency: a timer tick races with the client completing the timed act (either side pre-empted at one lock operation)
    jobs.append(("props.race", "run_pair_race", ("tmo_act", dict(oracles=("c03",), keep=True, with_tick=True, max_paths=900 if tier == "quick" else 4000, seed=seed), "C19")))
    c.run_jobs(jobs)
    if tier != "quick":
        c.run_kani(['timeout_as_secs'])
    return c.finish(
        rule="one path = rule set on an act or a step x sequence of k events from {tick, answer the timed act} x outcome class of every elapsed-time comparison; the clock is one "
             "symbolic variable per reading (non-decreasing); 'never early' and 'fires when due' are validity queries over those variables",
        assumptions=ASSUME + ["the tick is emit_tick -> the real on_tick closure; real timer jitter is not modelled", "durations are small enough for value*unit*1000 to fit i64"],
        bounds=dict(rule_sets=[r for r, _ in plan], events=k, units="s m h d", placement="timed task in the first step; 3 rule sets also with the timed task in a second step opened a symbolic time after the start"))
