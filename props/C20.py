"""C20 Models survive serialisation; deployment and tree building are faithful (tree / deploy / TimeoutLimit parts)."""
from mirsym.harness import Check
from . import scen
from .C01 import ASSUME

TREES = ["seq2", "two_if", "nested", "catch_act", "catch_step", "catch_two_codes", "catch_nomatch_then_step", "needs", "step_if", "catch_in_catch", "catch_multi_step", "step_next", "outs_act", "init_err_own_catch", "branches_and_acts"]


def main(tier, seed):
    c = Check("C20", tier, seed)
    names = TREES if tier == "quick" else [n for n in scen.catalogue() if "block" not in n and "par" not in n and n != "no_ids"]   # no_ids: generated ids, nothing to compare the declaration with
    jobs = [("props.models", "tree", ("C20", n)) for n in names]
    jobs.append(("props.models", "deploy", ("C20",)))
    jobs.append(("props.models", "roundtrip", ("C20",)))
    jobs.append(("props.models", "timeout_limit", ("C20",)))
    c.run_jobs(jobs)
    if tier != "quick":
        c.run_kani(['timeout_as_secs'])
    return c.finish(
        rule="tree: the real NodeTree::load / build_* run on every skeleton, optionally with two declared nodes given the same id (decision); node set, nesting, levels, first-child and next "
             "links, catch/timeout roots are compared with the declaration. deploy: the real ModelExecutor::deploy / rm, Store::deploy and ProcessExecutor::start on the memory store for "
             "0..2 `on` entries, 1..3 deploys, with/without duplicate ids. TimeoutLimit::as_secs for a symbolic value (validity query) and Display/parse on boundary values",
        assumptions=[a for a in ASSUME if "QuickJS" not in a] + [
            "NOT COVERED: 'a workflow written to YAML or JSON and parsed back is identical' -- the text codecs (serde_yaml / serde_json and the derive-generated visitors) are outside "
            "what this technique can encode here; the text is modelled structurally: the field lists of the model types and their serde field attributes (default, skip*, rename, alias) as "
            "read from the source take part (a model with every field non-default must come back unchanged from to_yml/from_yml and to_json/from_json), the byte-level syntax does not"],
        bounds=dict(skeletons=names, collisions="<= 6 node pairs per skeleton", deploys="1..3", on_entries="0..2", timeout_value="0..1e9"))
