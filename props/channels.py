"""C18: channels deliver exactly the messages their filters select (glob outcomes are free booleans)."""
import z3

from mirsym.values import *
from mirsym.world import World
from mirsym.harness import Violation, explore
from mirsym.interp import PyFn

EMITS = {"on_message": "emit_message", "on_start": "emit_start_event", "on_complete": "emit_complete_event", "on_error": "emit_error"}


class CCtx:
    def __init__(self, I, res, prop, name):
        self.I = I
        self.res = res
        self.prop = prop
        self.name = name
        self.sym = {}
        self.W = World(I).boot()
        self.globs = {}
        I.glob_oracle = self.glob

    def glob(self, pattern, s):
        """Outcome of GlobMatcher::is_match as an uninterpreted boolean of (pattern, string); '*' matches everything."""
        if pattern == "*":
            return True
        key = (pattern, s)
        if key not in self.globs:
            b = z3.Bool("glob(%s,%s)" % key)
            self.globs[key] = b
            self.sym[str(b)] = b
        return self.globs[key]

    def viol(self, role, desc, cond=None):
        I = self.I
        m = I.model(cond) if cond is not None else I.model()
        model = {k: str(m.eval(v, model_completion=True)) for k, v in self.sym.items()} if m is not None else {}
        self.res.violations.append(Violation(self.prop, role, desc, self.name, dict(decisions=list(I.path.taken)), model, None))

    def channel(self, cid, pats=None, ack=False):
        W = self.W
        p = dict(type="*", state="*", tag="*", key="*", uses="*")
        p.update(pats or {})
        opts = W.mk_struct("ChannelOptions", id=cid, ack=ack, **p)
        ch = self.I.call_raw("export::channel::Channel::channel", [Ptr([W.rt], 0), Ptr([opts], 0)], None)
        return BoxV(ch, "arc")

    def listen(self, ch, which, log, tag):
        def h(I, args):
            log.append(tag)
            return UNIT

        self.I.call_raw("export::channel::Channel::" + which, [Ptr([ch], 0), PyFn(h)], None)

    def message(self, **kw):
        I = self.I
        msg = I.call_raw("<event::message::Message as std::default::Default>::default", [], None)
        mf = {f[0]: i for i, f in enumerate(I.p.src.struct_fields("Message@acts/src/event/message.rs"))}
        for k, v in kw.items():
            if k == "model_tag":
                mm = msg.f[mf["model"]]
                names = [f[0] for f in I.p.src.struct_fields("Model@acts/src/event/message.rs")]
                mm.f[names.index("tag")] = v
            else:
                msg.f[mf[k]] = v
        return msg

    def emit(self, which, msg):
        self.I.call_raw("event::emitter::Emitter::" + EMITS[which], [Ptr(self.W.emitter.c, 0), Ptr([msg], 0)], None)


def filter_path(I, res, prop, which):
    cx = CCtx(I, res, prop, "filter:" + which)
    log = []
    # which of the five patterns are non-default: all of them, or exactly one
    allp = dict(type="Pty", state="Pst", tag="Ptg", key="Pky", uses="Pus")
    sel = I.path.choose(6, "patterns")
    pats = allp if sel == 0 else {k: v for i, (k, v) in enumerate(allp.items()) if i == sel - 1}
    ch = cx.channel("c1", pats)
    cx.listen(ch, which, log, "c1")
    d = cx.channel("dflt")
    cx.listen(d, which, log, "dflt")
    vs = I.p.src.enum_def("event::message::MessageState")
    created = [x for x in vs if x[0] == "Created"][0]
    msg = cx.message(type="T", tag="TG", key="K", uses="U", model_tag="MTG", id="m1", state=Enum("MessageState", created[1], [], "Created"))
    cx.emit(which, msg)
    res.witnesses += 1
    def g(field, p, s):
        b = cx.glob(p if field in pats else "*", s)
        return z3.BoolVal(b) if isinstance(b, bool) else b

    expected = z3.And(g("type", "Pty", "T"), g("state", "Pst", "created"), z3.Or(g("tag", "Ptg", "TG"), g("tag", "Ptg", "MTG")), g("key", "Pky", "K"), g("uses", "Pus", "U"))
    n = log.count("c1")
    if n > 1:
        cx.viol("filter:delivered-twice", "one message reached the handler of one channel %d times" % n)
    got = n >= 1
    res.obligations += 1
    f = expected if got else z3.Not(expected)
    neg = z3.Not(f)
    if I.check_sat(neg):
        cx.viol("filter:%s:%s:patterns=%s" % (which, "delivered-but-filter-says-no" if got else "not-delivered-but-filter-says-yes", "all" if sel == 0 else "only-" + list(pats)[0]),
                "the handler was %sinvoked although the filter (type and state and (tag or model tag) and key and uses) says otherwise" % ("" if got else "not "), neg)
    if log.count("dflt") != 1:
        cx.viol("filter:default-channel-deliveries=%d" % log.count("dflt"), "a channel with default options received the message %d times" % log.count("dflt"))
    if len(res.samples) < 2:
        res.samples.append(dict(check="filter", event=which, delivered=got, decisions=list(I.path.taken)))


def registry_path(I, res, prop):
    """register / re-register / close / unsub in a chosen order, then one emission of each kind."""
    cx = CCtx(I, res, prop, "registry")
    log = []
    chans = {}
    handlers = {"A": None, "B": None}  # name of the handler currently expected per channel id
    for cid in ("A", "B"):
        chans[cid] = cx.channel(cid)
        for w in EMITS:
            cx.listen(chans[cid], w, log, "%s:%s:h1" % (cid, w))
        handlers[cid] = "h1"
    ops = []
    for step in range(2):
        op = ["none", "reregister-A", "close-A", "unsub-B", "close-B"][I.path.choose(5, "op")]
        ops.append(op)
        if op == "reregister-A":
            ch2 = cx.channel("A")
            for w in EMITS:
                cx.listen(ch2, w, log, "A:%s:h2" % w)
            handlers["A"] = "h2"
        elif op == "close-A":
            I.call_raw("export::channel::Channel::close", [Ptr(chans["A"].c, 0)], None)
            handlers["A"] = None
        elif op == "close-B":
            I.call_raw("export::channel::Channel::close", [Ptr(chans["B"].c, 0)], None)
            handlers["B"] = None
        elif op == "unsub-B":
            ex = I.call_raw("export::executor::message_executor::MessageExecutor::new", [Ptr([cx.W.rt], 0)], None)
            I.call_raw("export::executor::message_executor::MessageExecutor::unsub", [Ptr([ex], 0), "B"], None)
            handlers["B"] = None
    del log[:]
    for w in EMITS:
        cx.emit(w, cx.message(type="T", key="K", id="m-" + w))
    res.witnesses += 1
    for cid in ("A", "B"):
        for w in EMITS:
            for h in ("h1", "h2"):
                n = log.count("%s:%s:%s" % (cid, w, h))
                want = 1 if handlers[cid] == h else 0
                if n != want:
                    cx.viol("registry:%s:deliveries=%d/%d" % ("stale-handler" if want == 0 else "missing-delivery", n, want),
                            "after %s handler %s of channel %s got %d %s deliveries, expected %d" % (ops, h, cid, n, w, want))
    if len(res.samples) < 2:
        res.samples.append(dict(check="registry", ops=ops, deliveries=sorted(set(log))))


def filters(I, prop, which):
    return explore(I, "filter:" + which, lambda I, res: filter_path(I, res, prop, which), max_paths=200)


def registry(I, prop):
    return explore(I, "registry", lambda I, res: registry_path(I, res, prop), max_paths=200)
