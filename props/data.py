"""C07: data flow — read-your-writes along the flow, option filtering, private keys, terminal outputs."""
import z3

from mirsym.values import *
from mirsym.world import World, STATE_NAMES, TERMINAL
from mirsym.harness import Violation, explore
from mirsym.intr_serde import json_to_py
from . import scen
from .flow import Run, Cfg, install_trace_context, kids


def scenarios():
    S = {}
    S["write-then-read"] = dict(
        model=scen.wf("m", [scen.step("s1", [scen.setv("w1", {"x": "$v1"})]),
                            scen.step("s2", [scen.irq("a1", **{"if": "x > 5"}), scen.irq("a2", inputs={"q": "{{ x }}"})])],
                      inputs={"x": None}, outputs={"x": None}),
        inputs={"x": "$v0"}, declares={"x": "m"}, outputs=["x"])
    S["client-options"] = dict(
        model=scen.wf("m", [scen.step("s1", [scen.irq("a1", outputs={"y": None})]), scen.step("s2", [scen.irq("a2", **{"if": "y > 3"})])], inputs={"y": 0}, outputs={"y": None}),
        inputs={}, declares={"y": "m"}, outputs=["y"], answer={"a1": {"y": "$w", "z": 9, "__p": 1}})
    # the answered act declares no outputs (every option counts) and is followed by another act in the same step
    S["client-options-plain-act"] = dict(
        model=scen.wf("m", [scen.step("s1", [scen.irq("a1"), scen.irq("a2", **{"if": "y > 3"})]), scen.step("s2", [scen.irq("a3", inputs={"q": "{{ y }}"})])],
                      inputs={"y": 0}, outputs={"y": None}),
        inputs={}, declares={"y": "m"}, outputs=["y"], answer={"a1": {"y": "$w", "__p": 1}})
    # the name is declared by the step, the act declares it as output but is not the last act of the step
    S["client-options-step-scope"] = dict(
        model=scen.wf("m", [scen.step("s1", [scen.irq("a1", outputs={"t": None}), scen.irq("a2", **{"if": "t > 3"})], inputs={"t": 0}), scen.step("s2", [scen.irq("a3")])], outputs={}),
        inputs={}, declares={"t": "s1"}, outputs=[], answer={"a1": {"t": "$w", "z": 9}})
    # an UNDECLARED option named like a variable of the enclosing scope (q) must not reach that scope, whichever action closes the act
    S["client-options-shadowing"] = dict(
        model=scen.wf("m", [scen.step("s1", [scen.irq("a1", outputs={"y": None})]), scen.step("s2", [scen.irq("a2", inputs={"seen": "{{ q }}"}, **{"if": "q < 50"})])],
                      inputs={"y": 0, "q": 1}, outputs={"y": None, "q": None}),
        inputs={}, declares={"y": "m", "q": "m"}, outputs=["y", "q"], answer={"a1": {"y": "$w", "q": 99}}, closing_kinds=["Next", "Submit", "Skip", "Remove"])
    S["interleaved-branches"] = dict(
        model=scen.wf("m", [scen.step("s1", branches=[
            scen.branch("b1", [scen.step("s11", [scen.setv("w1", {"x": "$v1"}), scen.irq("r1", **{"if": "x > 5"})])], **{"if": "true"}),
            scen.branch("b2", [scen.step("s21", [scen.setv("w2", {"x": "$v2"})])], **{"if": "true"}),
        ]), scen.step("s2", [scen.irq("a9")])], inputs={"x": None}, outputs={"x": None}),
        inputs={"x": "$v0"}, declares={"x": "m"}, outputs=["x"])
    S["script-write"] = dict(
        model=scen.wf("m", [scen.step("s1", [scen.code("c1", "$set(\"x\", 7); return {k: 1};"), scen.irq("a1", **{"if": "x > 5"})]),
                            scen.step("s2", [scen.irq("a2", inputs={"q": "{{ x }}"})])], inputs={"x": None}, outputs={"x": None}),
        inputs={"x": "$v0"}, declares={"x": "m"}, outputs=["x"])
    S["step-scope"] = dict(
        model=scen.wf("m", [scen.step("s1", [scen.setv("w1", {"t": "$v1"}), scen.irq("a1", **{"if": "t > 5"})], inputs={"t": 0}),
                            scen.step("s2", [scen.irq("a2")])], outputs={}),
        inputs={}, declares={"t": "s1"}, outputs=[])
    return S


def instantiate(model, sym):
    """Replace "$name" placeholders by z3 ints."""
    def walk(x):
        if isinstance(x, dict):
            return {k: walk(v) for k, v in x.items()}
        if isinstance(x, list):
            return [walk(v) for v in x]
        if isinstance(x, str) and x.startswith("$") and x[1:] in sym:
            return sym[x[1:]]
        return x

    return walk(model)


class DRun(Run):
    def __init__(self, I, res, name, spec, cfg, prop):
        self.I = I
        self.res = res
        self.name = "data:" + name
        self.spec = spec
        self.cfg = cfg
        self.prop = prop
        self.sym = {}
        for n in ("v0", "v1", "v2", "w"):
            self.sym[n] = z3.Int(n)
            I.assume(z3.And(self.sym[n] >= 0, self.sym[n] <= 10))
        self.model = instantiate(spec["model"], self.sym)
        self.plain_model = spec["model"]
        self.inputs = {}
        self.log = []
        self.current_action = None
        self.terminal_reported = {}
        self.catch_revived = set()
        self.writes = []  # (seq, writer nid, name, value)
        self.reads = []
        self.seq = 0

    def node_attr(self, nid):
        def walk(n, kind):
            if n.get("id") == nid:
                return kind, n
            for k2, c, _ in kids(n):
                r = walk(c, k2)
                if r:
                    return r
            return None

        return walk(self.plain_model, "workflow")

    def boot(self):
        I = self.I
        self.W = World(I, policy=self.cfg.policy).boot()
        W = self.W
        run = self
        tid2nid = {}

        def nid_of(task_ref):
            tk = deref_all(task_ref)
            return W.field(W.field(tk, "Task", "node").c[0], "Node", "id")

        # The reference record of writes is taken where a value ENTERS the engine, not where the engine stores it:
        #   - the parameters a set act is executed with (entry of SetPackage::execute),
        #   - the arguments of $set(..) as the script engine hands them over,
        #   - the options of an accepted client action (run()).
        def val_of(v):
            return v.f[0].n if (isinstance(v, Enum) and v.d == 2) else W.py(v)

        for (k_ty, k_tr, k_m), its in I.p.impls.items():
            if k_ty == "SetPackage" and k_m == "execute":
                def pre(I, item, args):
                    m = deref_all(args[0]).f[0].f[0]
                    task = I.call_raw("scheduler::context::Context::task", [args[1]], None)
                    for k in m.keys():
                        run.seq += 1
                        run.writes.append((run.seq, nid_of(task), k, val_of(m.d[k].v)))

                I.monitors_pre[its[0].name] = pre
                run.set_monitor = True
        orig_eval = W.js_eval

        def js_eval(expr, ty):
            run.seq += 1
            ctx = W.ctx_stack[-1]
            task = I.call_raw("scheduler::context::Context::task", [Ptr([ctx], 0)], None)
            reader = nid_of(task)
            vars_ = I.call_raw("scheduler::process::task::Task::vars", [Ptr(task.c, 0)], None)
            snap = {}
            for k in vars_.f[0].keys():
                v = vars_.f[0].d[k].v
                snap[k] = v.f[0].n if (isinstance(v, Enum) and v.d == 2) else W.py(v)
            run.reads.append((run.seq, reader, expr, snap))
            n0 = len(W.js_sets)
            try:
                return orig_eval(expr, ty)
            finally:
                for name, v in W.js_sets[n0:]:
                    run.seq += 1
                    run.writes.append((run.seq, reader, name, val_of(v)))

        W.js_eval = js_eval
        self.install_event_monitor()
        inputs = instantiate(self.spec["inputs"], self.sym)
        self.proc = W.start(self.model, inputs)
        self.pid = W.field(self.proc.c[0], "Process", "id")
        return W

    def run(self):
        I = self.I
        W = self.boot()
        W.drain()
        n = 0
        while n < 10:
            irqs = self.open_irqs()
            if not irqs or self.terminal_events():
                break
            n += 1
            t = irqs[0]
            opts = instantiate((self.spec.get("answer") or {}).get(t["nid"], {}), self.sym)
            kind, node = self.node_attr(t["nid"])
            declared = set((node.get("outputs") or {}).keys())
            mark = len(self.writes)
            for k, v in opts.items():
                if (not declared or k in declared) and not k.startswith("__"):
                    self.seq += 1
                    self.writes.append((self.seq, t["nid"], k, v))
            # the act is closed by complete, submit, skip or remove (all of them end it through Task::next): the option rules are the same
            ckind = "Next"
            if opts and self.spec.get("closing_kinds"):
                ckind = self.spec["closing_kinds"][I.path.choose(len(self.spec["closing_kinds"]), "closing-kind")]
            r = W.action(self.pid, t["tid"], ckind, opts)
            if r is None or r.d != 0:
                del self.writes[mark:]
            W.drain()
        self.res.witnesses += 1
        self.check()
        if len(self.res.samples) < 2:
            self.res.samples.append(dict(scenario=self.name, reads=[(r[1], r[2]) for r in self.reads][:6], writes=[(w[1], w[2], str(w[3])) for w in self.writes][:8]))

    def ancestors(self, nid):
        """node ids of the scopes enclosing nid (including itself), nearest first."""
        def walk(n, path):
            here = [n.get("id")] + path
            if n.get("id") == nid:
                return here
            for k2, c, _ in kids(n):
                r = walk(c, here)
                if r:
                    return r
            return None

        return walk(self.plain_model, []) or []

    def oblig(self, cond, role, desc):
        I = self.I
        self.res.obligations += 1
        if cond is True:
            return
        if cond is False or I.check_sat(z3.Not(cond)):
            self.viol(role, desc)

    def check(self):
        I = self.I
        W = self.W
        spec = self.spec
        inputs = instantiate(spec["inputs"], self.sym)
        # 1. read-your-writes: every condition / template / script sees the last value written to the declaring scope
        for seq, reader, expr, snap in self.reads:
            for name, scope in spec["declares"].items():
                if name not in expr or name not in snap:
                    continue
                if scope not in self.ancestors(reader):
                    self.viol("read:out-of-scope-value:%s" % name, "task %s outside scope %s sees %s" % (reader, scope, name))
                    continue
                last = None
                for wseq, writer, wname, val in self.writes:
                    if wseq < seq and wname == name and scope in self.ancestors(writer):
                        last = val
                if last is None:
                    last = inputs.get(name)
                if last is None:
                    last = self.declared_default(scope, name)
                if last is None:
                    continue
                got = snap[name]
                if is_sym(got) or is_sym(last) or isinstance(got, int):
                    self.oblig(got == last if (is_sym(got) or is_sym(last)) else (got == last), "read:stale-value:%s" % self.kind_of_reader(reader, expr),
                               "%s evaluating `%s` sees %s = %s, the last value written to scope %s is %s" % (reader, expr, name, got, scope, last))
        # 2. terminal outputs: exactly the declared keys (+ data) with the last value written
        evs = [e for e in W.events if e[0] == "complete"]
        if evs:
            outs = evs[0][1].get("outputs") or {}
            want_keys = set(spec["outputs"]) | {"data"}
            if set(outs.keys()) != want_keys:
                self.viol("outputs:keys:%s" % sorted(set(outs.keys()) ^ want_keys), "terminal outputs have keys %s, declared %s" % (sorted(outs.keys()), sorted(want_keys)))
            for name in spec["outputs"]:
                last = None
                for wseq, writer, wname, val in self.writes:
                    if wname == name:
                        last = val
                if last is None:
                    last = inputs.get(name)
                if last is None:
                    last = self.declared_default(spec["declares"].get(name), name)
                if last is not None and name in outs:
                    got = outs[name]
                    self.oblig((got == last) if (is_sym(got) or is_sym(last)) else (got == last), "outputs:last-writer:%s" % name,
                               "terminal output %s = %s, the last value written is %s" % (name, got, last))
        else:
            self.viol("data:not-finished", "the process did not finish")
        # 3. options are cut down to the declared outputs; private keys never leave their task
        ans = spec.get("answer") or {}
        for nid, opts in ans.items():
            kind, node = self.node_attr(nid)
            declared = set((node.get("outputs") or {}).keys())
            def stays_local(k):
                # an act without declared outputs passes every option on; private keys never leave.  A key that an enclosing scope declares itself is
                # there anyway: whether the option's VALUE got there is judged by the read-your-writes and output checks above.
                if k in spec["declares"]:
                    return False
                return k.startswith("__") or (declared and k not in declared)

            for t in self.tasks():
                for k in opts:
                    if not stays_local(k):
                        continue
                    if k in (t["data"] or {}) and (t["nid"] != nid or not k.startswith("__")):
                        if t["nid"] == nid and declared:
                            self.viol("options:undeclared-key-kept:%s" % ("private" if k.startswith("__") else "plain"), "undeclared option %s stayed in the data of act %s" % (k, nid))
                        elif t["nid"] != nid:
                            self.viol("options:key-leaked:%s" % ("private" if k.startswith("__") else "undeclared"), "option %s of act %s reached task %s" % (k, nid, t["nid"]))
            for m in W.messages:
                for part in ("inputs", "outputs"):
                    for k in opts:
                        if stays_local(k) and k in (m.get(part) or {}) and m["nid"] != nid:
                            self.viol("options:key-in-message:%s" % ("private" if k.startswith("__") else "undeclared"), "option %s of act %s shows in the %s of a message of %s" % (k, nid, part, m["nid"]))

    def declared_default(self, scope, name):
        """The value the declaring scope gives the name in the model (its `inputs` entry), if it is a plain value."""
        r = self.node_attr(scope) if scope else None
        node = r[1] if r else (self.plain_model if scope == self.plain_model.get("id") else {})
        v = (node.get("inputs") or {}).get(name)
        return v if isinstance(v, (int, str, bool)) and not (isinstance(v, str) and v.startswith("$")) else None

    def kind_of_reader(self, reader, expr):
        r = self.node_attr(reader)
        return "%s:%s" % (r[0] if r else "?", "condition" if (r and r[1].get("if") == expr) else "template-or-script")


def run_data(I, res, prop, name, policy):
    cfg = Cfg(policy=policy, k=0, oracles=())
    r = DRun(I, res, name, scenarios()[name], cfg, prop)
    orig = r.install_event_monitor
    r.install_event_monitor = lambda rebind=False: (orig(rebind), install_trace_context(r))
    r.run()


def data(I, prop, name, policy, max_paths):
    return explore(I, "data:%s:%s" % (name, policy), lambda I, res: run_data(I, res, prop, name, policy), max_paths=max_paths)
