"""Forward-run driver shared by the control-flow properties, plus their oracles."""
import copy
import z3

from mirsym.values import *
from mirsym.world import World, STATE_NAMES, TERMINAL
from mirsym.harness import Violation, explore
from . import scen

T_ = "scheduler::process::task::Task"
KINDS = ["Next", "Submit", "Back", "Cancel", "Abort", "Skip", "Error", "Push", "Remove", "SetProcessVars"]
RANK = {"None": 0, "Ready": 1, "Pending": 1, "Interrupt": 1, "Running": 2}
for _s in TERMINAL:
    RANK[_s] = 3


def kids(n):
    """(kind, child, in_catch_or_timeout) for every model node declared directly under n."""
    for key, k2 in (("steps", "step"), ("branches", "branch"), ("acts", "act"), ("setup", "act")):
        for s in n.get(key, []) or []:
            yield k2, s, False
    prm = n.get("params")
    if isinstance(prm, dict):
        for a in prm.get("acts", []) or []:
            if isinstance(a, dict):
                yield "act", a, False
    for c in (n.get("catches", []) or []) + (n.get("timeout", []) or []):
        for s in c.get("steps", []) or []:
            yield "step", s, True


class Cfg:
    def __init__(self, **kw):
        self.policy = "fifo"
        self.k = 0  # scripted symbolic client actions before the answer-all phase
        self.kinds = KINDS
        self.targets = "acts"  # 'acts' | 'all'
        self.answer_all = True
        self.keep = None
        self.max_paths = 400
        self.oracles = ()
        self.answer_choice = False
        self.__dict__.update(kw)


class Run:
    def __init__(self, I, res, name, cfg, prop):
        self.I = I
        self.res = res
        self.name = name
        self.cfg = cfg
        self.prop = prop
        self.model, self.inputs = scen.catalogue()[name]
        self.sym = {}
        self.log = []
        self.current_action = None
        self.terminal_reported = {}  # tid -> state name at first task event in a terminal state
        self.catch_revived = set()

    def history_tag(self):
        """Histories containing an accepted back / cancel / push are tagged: the engine's handling of those
        actions has recorded defects (C03) whose consequences must not mask violations of plain histories."""
        tags = []
        for k in ("Back", "Cancel", "Push"):
            if any(e.get("action") == k and e.get("accepted") for e in self.log):
                tags.append("after-" + k.lower())
        return ("+" + "+".join(tags)) if tags else ""

    def viol(self, role, desc, detail=None):
        I = self.I
        if self.prop in ("C02", "C05", "C08", "C06"):
            role = role + self.history_tag()
        m = I.model()
        model = {}
        if m is not None:
            for k, v in self.sym.items():
                model[k] = str(m.eval(v, model_completion=True))
        self.res.violations.append(Violation(self.prop, role, desc, self.name, dict(decisions=list(I.path.taken), tags=list(I.path.tags), script=self.log),
                                             model, detail))

    # ------------------------------------------------------------------ setup
    def boot(self):
        I = self.I
        self.W = World(I, policy=self.cfg.policy, keep_processes=self.cfg.keep).boot()
        W = self.W
        inputs = {}
        for k, v in self.inputs.items():
            if v == "$bool":
                self.sym[k] = z3.Bool(k)
                inputs[k] = self.sym[k]
            elif v == "$int":
                self.sym[k] = z3.Int(k)
                I.assume(z3.And(self.sym[k] >= -3, self.sym[k] <= 8))
                inputs[k] = self.sym[k]
            else:
                inputs[k] = v
        self.install_event_monitor()
        self.proc = W.start(self.model, inputs)
        self.pid = W.field(self.proc.c[0], "Process", "id")
        return W

    def install_event_monitor(self, rebind=False):
        W = self.W
        I = self.I
        if not rebind:
            self.task_events = []
        target = None
        for (k_ty, k_tr, k_m), its in I.p.impls.items():
            if k_m == "emit_task_event_with_extra" and k_ty == "Emitter":
                target = its[0]
        run = self

        def pre(I, item, args):
            t = args[1]
            info = W.task_info(deref(t) if isinstance(deref(t), BoxV) else t)
            run.task_events.append((info["tid"], info["state"], info["kind"]))
            if info["state"] in TERMINAL and info["tid"] not in run.terminal_reported:
                run.terminal_reported[info["tid"]] = info["state"]

        I.monitors_pre[target.name] = pre

    # ------------------------------------------------------------------ observation helpers
    def tasks(self):
        return [self.W.task_info(t) for t in self.W.tasks(self.proc)]

    def proc_state(self):
        return self.W.proc_state(self.proc)

    def terminal_events(self):
        return [e for e in self.W.events if e[0] in ("complete", "error") and e[1]["pid"] == self.pid]

    def node_attr(self, nid):
        def walk(n, kind):
            if n.get("id") == nid:
                return kind, n
            for k2, c, _ in kids(n):
                r = walk(c, k2)
                if r:
                    return r
            return None

        return walk(self.model, "workflow")

    # ------------------------------------------------------------------ script
    # ------------------------------------------------------------------ snapshots
    W_SKIP = ("I", "cfg", "pack_table")
    R_SKIP = ("I", "res", "cfg", "W", "model", "inputs", "name", "prop", "boot", "install_event_monitor")

    def save(self, snaps, phase):
        I = self.I
        if snaps is None:
            return
        key = tuple(I.path.taken)
        if key in snaps:
            return
        memo = {}
        if self.W.pack_table is not None:
            memo[id(self.W.pack_table)] = self.W.pack_table
        st = dict(w={k: v for k, v in self.W.__dict__.items() if k not in self.W_SKIP},
                  r={k: v for k, v in self.__dict__.items() if k not in self.R_SKIP},
                  path=(list(I.path.taken), list(I.path.nopts), list(I.path.tags), list(I.path.pc), I.path.pc_key), fresh=I.fresh_counter,
                  witnesses=self.res.witnesses)
        snaps[key] = (phase, copy.deepcopy(st, memo))
        if len(snaps) > 48:
            snaps.pop(next(iter(snaps)))

    def restore(self, snaps):
        """Resume from the longest snapshot that is a prefix of the requested decision prefix."""
        I = self.I
        if not snaps:
            return None
        want = tuple(I.path.prefix)
        best = None
        for key in snaps:
            if len(key) <= len(want) and want[: len(key)] == key and (best is None or len(key) > len(best)):
                best = key
        if best is None:
            return None
        phase, st = snaps[best]
        memo = {}
        st = copy.deepcopy(st, memo)
        self.W = World.__new__(World)
        self.W.__dict__.update(st["w"])
        self.W.I = I
        self.W.cfg = dict(cache_cap=None, keep_processes=self.cfg.keep, max_message_retry_times=None, tick_interval_secs=None)
        self.W.pack_table = None
        self.W.install()
        I.world = self.W
        self.__dict__.update(st["r"])
        taken, nopts, tags, pc, pc_key = st["path"]
        I.path.taken = taken
        I.path.nopts = nopts
        I.path.tags = tags
        I.path.pos = len(taken)
        for c in pc:
            I.assume(c)
        I.fresh_counter = st["fresh"]
        self.install_event_monitor(rebind=True)
        return phase

    def run(self, snaps=None):
        phase = self.restore(snaps)
        if phase is None:
            W = self.boot()
            W.drain()
            self.at_quiescence("start")
            phase = 0
            self.save(snaps, phase)
        W = self.W
        if getattr(self.cfg, "error_script", False) and phase == 0:
            for n in range(getattr(self.cfg, "errors", 1)):
                if n > 0 and (not self.open_irqs() or self.terminal_events() or self.I.path.choose(2, "second-error") == 0):
                    break
                if self.error_script():
                    W.drain()
                    self.at_quiescence("error")
        for i in range(phase, self.cfg.k):
            if not self.scripted_action(i):
                break
            W.drain()
            self.at_quiescence("script%d" % i)
            if i + 1 < self.cfg.k:
                self.save(snaps, i + 1)
        if self.cfg.answer_all:
            self.answer_all()
        self.at_end()
        self.res.samples.append(dict(scenario=self.name, inputs={k: str(v) for k, v in self.sym.items()}, decisions=list(self.I.path.taken),
                                     script=self.log, final=[(t["nid"], t["state"]) for t in self.tasks()],
                                     events=[e[0] for e in W.events])) if len(self.res.samples) < 3 else None

    def open_irqs(self):
        return [t for t in self.tasks() if t["kind"] == "Act" and t["state"] == "Interrupt"]

    def outputs_for(self, t):
        kind, node = self.node_attr(t["nid"]) or (None, {})
        outs = (node or {}).get("outputs", {}) or {}
        o = {k: 1 for k in outs}
        o.update((node or {}).get("_answer") or {})  # scenario hint: what the client answers this act with
        return o

    def scripted_action(self, i):
        I = self.I
        W = self.W
        ts = self.tasks()
        if self.cfg.targets == "acts":
            cands = [t for t in ts if t["kind"] == "Act"]
        else:
            cands = list(ts)
        if getattr(self.cfg, "skip_running_acts", False):
            # closing a running composite act over its open children is recorded under C03; its consequences are not re-explored here
            cands = [t for t in cands if not (t["kind"] == "Act" and t["state"] == "Running")]
        if not cands:
            return False
        d = I.path.choose(len(cands), "target")
        t = cands[d]
        kinds = self.cfg.kinds
        ev = z3.Int("act%d" % i)
        self.sym["act%d" % i] = ev
        ds = [I.p.src.enum_variant("EventAction", k) for k in kinds]
        I.assume(z3.Or(*[ev == x for x in ds]))
        opts = dict(self.outputs_for(t))
        omitted = None
        kn, node = self.node_attr(t["nid"]) or (None, {})
        declared = sorted(((node or {}).get("outputs") or {}).keys()) if t["kind"] == "Act" else []
        if declared and getattr(self.cfg, "omit_outputs", False) and I.path.choose(2, "omit-output") == 1:
            omitted = declared[-1]
            opts.pop(omitted, None)
        opts.update({"to": self.model["steps"][0]["id"], "ecode": "e1", "message": "boom", "uses": "acts.core.irq", "key": "pushed"})
        if getattr(self.cfg, "bad_to", False):
            opts["to"] = "no_such_step"   # a back aimed at a step that is not in the act's history must be refused without any effect
        before = self.snapshot()
        self.current_action = dict(tid=t["tid"], nid=t["nid"], state=t["state"], kind=t["kind"], ev=ev, omitted=omitted)
        nmsg = len(W.messages)
        ntrace = len(W.trace)
        r = W.action(self.pid, t["tid"], ev, opts)
        # which kind did this path take?
        kind = None
        for k, x in zip(kinds, ds):
            if not I.check_sat(ev != x):
                kind = k
        self.current_action["kind_taken"] = kind
        accepted = None if r is None else (r.d == 0)
        occ = [x["tid"] for x in ts if x["nid"] == t["nid"]].index(t["tid"])
        self.log.append(dict(target=t["nid"], target_state=t["state"], target_kind=t["kind"], action=kind, accepted=accepted, options=opts, occurrence=occ,
                             dyn_index=self.dyn_index(t, ts), omitted=omitted))
        self.after_action(t, kind, accepted, before, nmsg, ntrace)
        self.current_action = None
        return True

    def dyn_index(self, t, ts):
        if self.node_attr(t["nid"]) is not None:
            return None
        dyn = [x["tid"] for x in sorted(ts, key=lambda x: x["timestamp"]) if self.node_attr(x["nid"]) is None]
        return dyn.index(t["tid"])

    def snapshot(self):
        return {t["tid"]: (t["state"], repr(t["data"]), repr(t["err"])) for t in self.tasks()}

    def answer_all(self):
        W = self.W
        bound = 2 * len(self.all_act_nodes()) + 6
        n = 0
        while True:
            irqs = self.open_irqs()
            if not irqs or self.terminal_events():
                break
            n += 1
            if n > bound:
                self.on_answer_bound()
                break
            if self.cfg.answer_choice and len(irqs) > 1:
                t = irqs[self.I.path.choose(len(irqs), "answer")]
            else:
                t = irqs[0]
            r = W.action(self.pid, t["tid"], "Next", self.outputs_for(t))
            if r is not None and r.d == 1:
                self.log.append(dict(answer=t["nid"], accepted=False, options=self.outputs_for(t), occurrence=0))
                self.on_answer_rejected(t, r)
                break
            occ = [x["tid"] for x in self.tasks() if x["nid"] == t["nid"]].index(t["tid"])
            self.log.append(dict(answer=t["nid"], accepted=None if r is None else r.d == 0, options=self.outputs_for(t), occurrence=occ,
                                 dyn_index=self.dyn_index(t, self.tasks())))
            W.drain()
            self.at_quiescence("answer%d" % n)

    def all_act_nodes(self):
        out = []

        def walk(n):
            for k2, c, _ in kids(n):
                if k2 == "act":
                    out.append(c)
                walk(c)

        walk(self.model)
        return out

    # ------------------------------------------------------------------ oracle dispatch
    def at_quiescence(self, where):
        for o in self.cfg.oracles:
            f = getattr(self, "q_" + o, None)
            if f:
                f(where)

    def after_action(self, t, kind, accepted, before, nmsg, ntrace):
        for o in self.cfg.oracles:
            f = getattr(self, "a_" + o, None)
            if f:
                f(t, kind, accepted, before, nmsg, ntrace)

    def at_end(self):
        for o in self.cfg.oracles:
            f = getattr(self, "e_" + o, None)
            if f:
                f()

    def on_answer_rejected(self, t, r):
        self.viol("answer-rejected:%s" % t["state"], "completing open interrupt %s was rejected: %s" % (t["nid"], self.W.py(r.f[0])))

    def on_answer_bound(self):
        # progress is C01's subject (and after back / cancel / push histories re-created acts can legitimately need more answers than the bound)
        if "c01" in self.cfg.oracles:
            self.viol("answer-all-does-not-terminate", "answering every open interrupt with complete did not finish the process within the bound")

    # ================================================================== C01 progress
    def q_c01(self, where):
        W = self.W
        self.res.witnesses += 1
        if W.panics:
            self.viol("panic:" + W.panics[0][1][:60], "engine job panicked: %s" % (W.panics[0],))
        if self.terminal_events():
            return
        ts = self.tasks()
        waiting = [t for t in ts if t["kind"] == "Act" and t["state"] == "Interrupt" and not t["data"].get("$is_event_processed")]
        if waiting:
            return
        # un-fired timeout rule on an open task
        for t in ts:
            if "Timeout" in " ".join(t["hooks"]) and t["state"] not in TERMINAL:
                if not any(k.startswith("$is_timeout_") for k in t["data"]):
                    return
        by_tid = {t["tid"]: t for t in ts}
        open_ts = [t for t in ts if t["state"] not in TERMINAL]
        leaves = [t for t in open_ts if not [d for d in self.descendants(t, ts, by_tid) if d["state"] not in TERMINAL]]
        stuck = sorted(set("%s(%s)=%s" % (t["kind"], self.attr_desc(t), t["state"]) for t in leaves))
        self.viol("stuck:" + ",".join(stuck), "quiescent, no terminal event, nothing a client can answer (%s)" % where,
                  dict(tasks=[(t["nid"], t["state"]) for t in ts]))

    def attr_desc(self, t):
        r = self.node_attr(t["nid"])
        if not r:
            return "dyn"
        kind, n = r
        if kind == "branch":
            if n.get("else"):
                return "else"
            if n.get("needs"):
                return "needs"
            if n.get("if"):
                return "if"
            return "plain"
        return kind

    def e_c01(self):
        if not self.terminal_events() and self.cfg.answer_all:
            ts = self.tasks()
            if not [t for t in ts if t["kind"] == "Act" and t["state"] == "Interrupt"]:
                return  # already reported by the quiescence oracle
            self.viol("answer-all-incomplete", "open interrupts remain after the answer-all phase")

    # ================================================================== C02 lifecycle
    def q_c02(self, where):
        W = self.W
        done = getattr(self, "_c02_pos", 0)
        tr = W.trace
        for i in range(done, len(tr)):
            e = tr[i]
            self.res.witnesses += 1
            old = STATE_NAMES[e["old"]]
            new = STATE_NAMES[e["new"]]
            if old == new:
                continue
            via = self.via(e)
            if RANK[new] < RANK[old]:
                if old == "Error" and new == "Running" and e.get("in_hook") and (e["tid"] not in self.catch_revived):
                    self.catch_revived.add(e["tid"])
                    continue
                self.viol("backward:%s->%s:%s:%s" % (old, new, e["kind"], via), "task %s moved backwards %s -> %s (%s)" % (e["tid"], old, new, via), dict(old=old, new=new, kind=e["kind"]))
            elif old in TERMINAL:
                rep = e.get("reported")
                if rep:
                    self.viol("rewrite-after-terminal:%s:%s" % (e["kind"], via),
                              "task %s changed %s -> %s after being reported terminal (%s)" % (e["tid"], old, new, via), dict(old=old, new=new, kind=e["kind"]))
        self._c02_pos = len(tr)

    def via(self, e):
        a = e.get("action")
        if a:
            return "action=%s" % a
        return "engine"

    # ================================================================== C03 hierarchy / events
    def q_c03(self, where):
        W = self.W
        ts = self.tasks()
        by_tid = {t["tid"]: t for t in ts}
        self.res.witnesses += 1
        root = by_tid.get("$")
        if root is not None and self.proc_state() != root["state"]:
            self.viol("proc-state!=root:%s/%s" % (self.proc_state(), root["state"]), "process state %s differs from root task state %s at quiescence" % (self.proc_state(), root["state"]))
        starts = [e for e in W.events if e[0] == "start" and e[1]["pid"] == self.pid]
        terms = self.terminal_events()
        if len(starts) > 1:
            self.viol("start-events=%d" % len(starts), "more than one start event")
        if root is not None and root["state"] != "None" and len(starts) != 1:
            self.viol("start-events=%d" % len(starts), "process started but %d start events" % len(starts))
        if len(terms) > 1:
            self.viol("terminal-events=%d:%s" % (len(terms), "+".join(e[0] for e in terms)), "more than one terminal event")
        if root is not None and root["state"] in TERMINAL and len(terms) != 1:
            self.viol("terminal-events=%d:root=%s" % (len(terms), root["state"]), "root task is %s but %d terminal events delivered" % (root["state"], len(terms)))
        # hierarchical completion: a successfully completed parent has only terminal descendants
        for t in ts:
            if t["state"] == "Completed" and t["kind"] in ("Workflow", "Step", "Branch", "Act"):
                for d in self.descendants(t, ts, by_tid):
                    if d["state"] not in TERMINAL and not d["data"].get("$is_event_processed"):
                        self.viol("completed-over-open:%s" % self.open_cause(d, ts, None),
                                  "%s %s is completed while %s %s beneath it is %s" % (t["kind"], t["nid"], d["kind"], d["nid"], d["state"]))
        if terms and terms[0][0] == "complete":
            left = [t for t in ts if t["state"] not in TERMINAL and not t["data"].get("$is_event_processed")]
            for d in left:
                self.viol("open-after-terminal-event:%s" % self.open_cause(d, ts, terms[0][1]["state"]),
                          "terminal event (%s) delivered while tasks are still open: %s" % (terms[0][1]["state"], [(t["nid"], t["state"]) for t in left]))

    def open_cause(self, d, ts, ending):
        """Mechanism class of a task left open.  Specific classes are only given to precisely identified
        mechanisms; everything else falls back to a structural description so that it is reported."""
        by_tid = {t["tid"]: t for t in ts}
        hist = [e for e in self.log if e.get("action") and e.get("accepted")]
        did = lambda k, pred=lambda e: True: any(e["action"] == k and pred(e) for e in hist)
        p = self.parent_of(d, by_tid)
        dynamic = self.node_attr(d["nid"]) is None
        if dynamic and p is not None and p["kind"] == "Step" and p["state"] in TERMINAL and did("Push", lambda e: e.get("target_state") in TERMINAL and e.get("target") == p["nid"]):
            return "act-pushed-into-finished-step"
        if d["kind"] == "Act" and p is not None and p["kind"] == "Step" and did("Push", lambda e: e.get("target") == p["nid"]) and d["prev"] != p["tid"]:
            return "step-completed-past-chained-act-after-push"
        for redo_kind in ("Back", "Cancel"):
            # back and cancel both re-run an earlier step (Context::redo_task); what was created downstream meanwhile is not taken back
            if not did(redo_kind):
                continue
            same = [x for x in ts if x["nid"] == d["nid"]]
            if d["kind"] == "Step" and len(same) > 1 and same[-1]["tid"] != d["tid"] and d["state"] == "Running":
                return "stale-step-instance-after-%s" % redo_kind.lower()
            q = d
            while q is not None:
                sm = [x for x in ts if x["nid"] == q["nid"]]
                if len(sm) > 1:
                    return "duplicate-flow-after-%s" % redo_kind.lower()
                q = self.parent_of(q, by_tid)
        if did("Cancel") and not dynamic:
            # cancel marks the running tasks on the path to the next steps Completed (pending ones Skipped) without closing what runs beneath them
            # (declared nodes only: what happens to acts generated at run time under a cancel is not part of this recorded mechanism)
            q = p
            chain_declared = True
            while q is not None:
                if self.node_attr(q["nid"]) is None:
                    chain_declared = False
                q = self.parent_of(q, by_tid)
            q = p
            while q is not None and chain_declared:
                if q["kind"] in ("Step", "Branch") and q["state"] in ("Completed", "Skipped"):
                    return "open-beneath-path-task-closed-by-cancel"
                q = self.parent_of(q, by_tid)
        closed_running = [e for e in hist if e.get("target_state") == "Running" and e["action"] in ("Next", "Submit", "Remove", "Skip", "Abort")]
        if closed_running:
            # a client closed an act that was Running (a composite act, or an act whose catch steps run): everything beneath it stays open
            q = p
            while q is not None:
                if q["kind"] == "Act" and any(e.get("target") == q["nid"] or (self.node_attr(q["nid"]) is None and e.get("dyn_index") is not None) for e in closed_running):
                    return "client-closed-running-act-over-open-children"
                q = self.parent_of(q, by_tid)
        # an open task inside the timeout handler steps of an ACT that is itself already closed (the client answered the act after its
        # timeout rule had fired): the act's closing does not wait for / end the handler flow started beneath it
        q = p
        while q is not None:
            if q["kind"] == "Act" and q["state"] in TERMINAL:
                r = self.node_attr(q["nid"])
                qn = r[1] if r else {}
                inside = False
                for rule in (qn.get("timeout") or []):
                    stack = list(rule.get("steps") or [])
                    while stack:
                        x = stack.pop()
                        if x.get("id") == d["nid"]:
                            inside = True
                        for k2, c, _ in kids(x):
                            stack.append(c)
                if inside:
                    # recorded finding: the rule fired while the act was open and the client closed the act afterwards.  A handler that was
                    # STARTED beneath an act that was already closed is something else.
                    hs = d
                    while hs is not None and self.parent_of(hs, by_tid) is not None and self.parent_of(hs, by_tid)["tid"] != q["tid"]:
                        hs = self.parent_of(hs, by_tid)
                    # handler created (entry "new") before the act's terminal state became visible (entry "set_state_done")?
                    ev = self.trace_events()
                    i_started = next((i for i, (tid, st, how) in enumerate(ev) if tid == (hs or d)["tid"]), None)
                    i_closed = next((i for i, (tid, st, how) in enumerate(ev) if tid == q["tid"] and st in TERMINAL and how in ("set_state_done", "set_pure_state")), None)
                    before = i_started is not None and (i_closed is None or i_started < i_closed)
                    return "timeout-handler-open-under-closed-act" if before else "timeout-handler-started-under-closed-act"
            q = self.parent_of(q, by_tid)
        # skip marks the siblings of the skipped act Skipped, but not what runs beneath them (e.g. a fired timeout handler step with an open act)
        for e in hist:
            if e["action"] != "Skip":
                continue
            for tg in [x for x in ts if x["nid"] == e.get("target")]:
                tp = self.parent_of(tg, by_tid)
                q = p
                while q is not None and tp is not None:
                    qp = self.parent_of(q, by_tid)
                    if q["state"] == "Skipped" and q["tid"] != tg["tid"] and qp is not None and qp["tid"] == tp["tid"]:
                        return "open-under-sibling-marked-skipped-by-skip"
                    q = qp
        if ending == "Aborted" and did("Abort"):
            # abort inside one branch of a step: the tasks of its sibling branches stay open (abort closes the act's siblings and its ancestors only)
            def branch_of(x):
                q = x
                while q is not None:
                    if q["kind"] == "Branch":
                        return q
                    q = self.parent_of(q, by_tid)
                return None

            bd = branch_of(d)
            for e in hist:
                if e["action"] != "Abort":
                    continue
                for tg in [x for x in ts if x["nid"] == e.get("target")]:
                    bt = branch_of(tg)
                    if bd is not None and bt is not None and bd["tid"] != bt["tid"]:
                        pd, pt = self.parent_of(bd, by_tid), self.parent_of(bt, by_tid)
                        if pd is not None and pt is not None and pd["tid"] == pt["tid"]:
                            return "open-sibling-branch-after-abort"
            # more generally: abort closes the aborted act's own siblings and marks its ancestors; whatever else runs beneath those ancestors (a pushed
            # act, the tasks of another branch when the aborted act sits outside the branches, a catch flow) stays open.  A SIBLING of the aborted
            # act (same parent) left open is NOT this recorded mechanism and keeps its structural role.
            for e in hist:
                if e["action"] != "Abort":
                    continue
                tgs = [x for x in ts if x["nid"] == e.get("target")] or [x for x in ts if self.node_attr(x["nid"]) is None and e.get("dyn_index") is not None]
                for tg in tgs:
                    tp = self.parent_of(tg, by_tid)
                    if p is not None and tp is not None and p["tid"] == tp["tid"]:
                        continue   # a sibling
                    anc = set()
                    q = tp
                    while q is not None:
                        anc.add(q["tid"])
                        q = self.parent_of(q, by_tid)
                    q = p
                    while q is not None:
                        if q["tid"] in anc:
                            return "open-non-sibling-beneath-aborted-ancestor"
                        q = self.parent_of(q, by_tid)
        return "%s=%s under %s" % (d["kind"], d["state"], ("%s=%s" % (p["kind"], p["state"])) if p is not None else "root")

    def trace_events(self):
        """(tid, new state name) of every state write so far, in order."""
        return [(e["tid"], STATE_NAMES[e["new"]] if isinstance(e["new"], int) else e["new"], e.get("how")) for e in (self.W.trace or [])]

    def in_catch_subtree(self, nid):
        def walk(n, inside):
            if n.get("id") == nid:
                return inside
            for k2, c, ic in kids(n):
                r = walk(c, inside or ic)
                if r is not None:
                    return r
            return None

        return bool(walk(self.model, False))

    def descendants(self, t, ts, by_tid):
        out = []
        for x in ts:
            if x["tid"] == t["tid"]:
                continue
            p = x["prev"]
            seen = 0
            while p is not None and seen < 100:
                seen += 1
                if p == t["tid"]:
                    if x["level"] > t["level"]:
                        out.append(x)
                    break
                pt = by_tid.get(p)
                if pt is None or pt["level"] <= t["level"]:
                    break
                p = pt["prev"]
        return out

    # ================================================================== C08 message stream
    def q_c08(self, where):
        W = self.W
        self.res.witnesses += 1
        msgs = [m for m in W.messages if m["pid"] == self.pid]
        by_tid = {}
        for m in msgs:
            by_tid.setdefault(m["tid"], []).append(m)
        ts = self.tasks()
        info = {t["tid"]: t for t in ts}
        ids = [m["id"] for m in W.messages]
        if len(ids) != len(set(ids)):
            self.viol("duplicate-message-id", "two messages share an id")
        for tid, ms in by_tid.items():
            t = info.get(tid)
            kind = ms[0]["type"]
            created = [m for m in ms if m["state"] == "Created"]
            term = [m for m in ms if m["state"] not in ("Created", "None")]
            hookmsg = [m for m in ms if t is not None and m["nid"] != t["nid"]]
            own = [m for m in ms if m not in hookmsg]
            created = [m for m in own if m["state"] == "Created"]
            term = [m for m in own if m["state"] != "Created"]
            if len(created) > 1:
                self.viol("dup-created:%s" % kind, "task %s has %d created messages" % (tid, len(created)))
            if len(term) > 1:
                cause = "+".join(m["state"] for m in term)
                r = self.node_attr(t["nid"]) if t is not None else None
                node = r[1] if r else {}
                if [m["state"] for m in term] == ["Completed", "Completed"] and any(not (c.get("steps") or []) for c in (node.get("catches") or [])) and \
                        any(e.get("action") == "Error" and e.get("accepted") and e.get("target") == t["nid"] for e in self.log):
                    # recorded finding: an error taken by a catch WITHOUT steps completes the task inside the hook and the pending event is emitted as completed again
                    cause = "completed-twice-by-empty-catch"
                self.viol("dup-terminal:%s:%s" % (kind, cause), "task %s has %d terminal messages" % (tid, len(term)))
            if created and term and created[0]["_seq"] > term[0]["_seq"]:
                self.viol("created-after-terminal:%s" % kind, "created message generated after the terminal one for %s" % tid)
            if t is not None:
                for m in own:
                    exp = dict(pid=t["pid"], tid=t["tid"], nid=t["nid"], type=t["kind"].lower(), uses=t["uses"])
                    for k, v in exp.items():
                        if m[k] != v:
                            self.viol("field-mismatch:%s" % k, "message %s.%s=%r but task has %r" % (m["id"], k, m[k], v))
        for t in ts:
            ms = [m for m in by_tid.get(t["tid"], []) if m["nid"] == t["nid"]]
            is_hook = bool(t["data"].get("$is_event_processed"))
            uses = t["uses"]
            run_as = None
            if t["kind"] == "Act":
                p = W.packages().get(uses)
                run_as = p["run_as"].vn if p else None
            if t["kind"] == "Branch":
                if ms:
                    self.viol("branch-message", "a branch task produced a message")
                continue
            emits_created = t["kind"] in ("Workflow", "Step") or run_as == "Irq"
            started = t["state"] != "None"
            skipped_at_init = t["state"] == "Skipped" and t["start_time"] == 0
            if emits_created and started and not is_hook and not [m for m in ms if m["state"] == "Created"]:
                # a task skipped by its `if` before it was ever created has no created message
                if not (t["state"] == "Skipped"):
                    self.viol("missing-created:%s" % t["kind"], "%s %s started but has no created message" % (t["kind"], t["nid"]))
            if t["state"] in TERMINAL and (emits_created or run_as == "Msg") and not is_hook:
                term = [m for m in ms if m["state"] != "Created"]
                if not term:
                    self.viol("missing-terminal:%s:%s" % (t["kind"], t["state"]), "%s %s ended %s without a terminal message" % (t["kind"], t["nid"], t["state"]))
                elif term[-1]["state"] != t["state"]:
                    self.viol("terminal-state-mismatch:%s:%s/%s" % (t["kind"], term[-1]["state"], t["state"]),
                              "%s %s ended %s but its terminal message says %s" % (t["kind"], t["nid"], t["state"], term[-1]["state"]))
            if run_as == "Msg" and [m for m in ms if m["state"] == "Created"]:
                self.viol("msg-act-created", "a message act produced a created message")
        # parent's created before any child's
        for t in ts:
            p = self.parent_of(t, info)
            if p is None:
                continue
            cm = [m for m in by_tid.get(t["tid"], []) if m["state"] == "Created" and m["nid"] == t["nid"]]
            pm = [m for m in by_tid.get(p["tid"], []) if m["state"] == "Created" and m["nid"] == p["nid"]]
            if cm and pm and pm[0]["_seq"] > cm[0]["_seq"]:
                self.viol("child-created-before-parent:%s<%s" % (t["kind"], p["kind"]), "created message of %s precedes its parent's" % t["nid"])

    def parent_of(self, t, info):
        p = t["prev"]
        n = 0
        while p is not None and n < 100:
            n += 1
            pt = info.get(p)
            if pt is None:
                return None
            if pt["level"] < t["level"]:
                return pt
            p = pt["prev"]
        return None

    # ================================================================== C06 errors and catches
    def node_chain(self, nid):
        """[(kind, node)] from the node itself up to the workflow."""
        def walk(n, kind, path):
            here = path + [(kind, n)]
            if n.get("id") == nid:
                return here
            for k2, c, _ in kids(n):
                r = walk(c, k2, here)
                if r:
                    return r
            return None

        r = walk(self.model, "workflow", [])
        return list(reversed(r)) if r else None

    def error_script(self):
        """One client error with a code chosen from the pool on one of the open interrupts."""
        I = self.I
        W = self.W
        irqs = self.open_irqs()
        if not irqs:
            return False
        t = irqs[I.path.choose(len(irqs), "err-target")]
        code = ["e1", "e2"][I.path.choose(2, "err-code")]
        r = W.action(self.pid, t["tid"], "Error", {"ecode": code, "message": "boom"})
        acc = None if r is None else r.d == 0
        self.err_case = dict(nid=t["nid"], code=code, accepted=acc)
        self.err_cases = getattr(self, "err_cases", []) + [self.err_case]
        self.log.append(dict(target=t["nid"], target_state=t["state"], target_kind="Act", action="Error", accepted=acc,
                             options={"ecode": code, "message": "boom"}, occurrence=0, dyn_index=None))
        return True

    def e_c06(self):
        cases = [c for c in getattr(self, "err_cases", []) if c["accepted"]]
        # acts of the scenario that fail while being initialised: the engine raises the error itself (code not fixed by the property)
        cases += [dict(nid=n, code=None, accepted=True) for n in (getattr(self.cfg, "engine_errors", None) or []) if [t for t in self.tasks() if t["nid"] == n]]
        used = set()
        for i, ec in enumerate(cases):
            self.c06_case(ec, i == len(cases) - 1, used)

    def c06_case(self, ec, final, used):
        self.res.witnesses += 1
        W = self.W
        ts = self.tasks()
        chain = self.node_chain(ec["nid"])
        code = ec["code"]
        catcher = None
        match = None
        for i, (kind, n) in enumerate(chain):
            for c in n.get("catches", []) or []:
                if c.get("on") is None or (code is not None and c.get("on") == code):
                    catcher, match = i, c
                    break
            if catcher is not None:
                break
        inst = lambda nid: [t for t in ts if t["nid"] == nid]
        errs = [e for e in W.events if e[0] == "error" and e[1]["pid"] == self.pid]
        comps = [e for e in W.events if e[0] == "complete" and e[1]["pid"] == self.pid]
        if catcher is not None:
            if chain[catcher][1]["id"] in used:
                return  # a second error reaching a catch that already fired: not specified by the property
            used.add(chain[catcher][1]["id"])
        if catcher is None and not final:
            return
        if catcher is None:
            for kind, n in chain:
                for t in inst(n["id"])[-1:]:
                    if t["state"] != "Error":
                        self.viol("uncaught-not-error:%s=%s" % (kind, t["state"]), "uncaught error %s: %s %s is %s, expected error" % (code, kind, n["id"], t["state"]))
                    elif code is not None and (t["err"] or {}).get("ecode") != code:
                        self.viol("uncaught-wrong-code:%s" % kind, "%s %s carries %r, expected code %s" % (kind, n["id"], t["err"], code))
            if len(errs) != 1 or comps:
                self.viol("uncaught-events:error=%d,complete=%d" % (len(errs), len(comps)), "uncaught error must deliver exactly one error event")
            elif code is not None and (errs[0][1].get("inputs") or {}).get("ecode") != code:
                self.viol("error-event-wrong-code", "error event carries %r" % (errs[0][1].get("inputs"),))
            return
        # caught
        for kind, n in chain[:catcher]:
            for t in inst(n["id"])[-1:]:
                if t["state"] != "Error":
                    self.viol("below-catcher-not-error:%s=%s" % (kind, t["state"]), "%s %s below the catching task is %s" % (kind, n["id"], t["state"]))
        ckind, cn = chain[catcher]
        for t in inst(cn["id"])[-1:]:
            if final and t["state"] != "Completed":
                self.viol("catcher-not-completed:%s=%s" % (ckind, t["state"]), "catching %s %s ended %s" % (ckind, cn["id"], t["state"]))
        for c in cn.get("catches", []) or []:
            for sidx, snode in enumerate(c.get("steps", []) or []):
                n_inst = len(inst(snode["id"]))
                if c is match:
                    used.add("steps:" + snode["id"])
                    if not final and sidx > 0 and n_inst == 0:
                        continue  # a later error may have ended the catch's own steps early
                    if n_inst != 1:
                        self.viol("catch-steps-ran=%d" % n_inst, "matching catch step %s ran %d times" % (snode["id"], n_inst))
                    elif final and inst(snode["id"])[0]["state"] != "Completed":
                        self.viol("catch-step-state=%s" % inst(snode["id"])[0]["state"], "catch step %s is %s" % (snode["id"], inst(snode["id"])[0]["state"]))
                elif n_inst != 0 and ("steps:" + snode["id"]) not in used:
                    self.viol("other-catch-ran", "steps of a non-selected catch ran (%s)" % snode["id"])
        for kind, n in chain[:catcher]:
            for c in n.get("catches", []) or []:
                for snode in c.get("steps", []) or []:
                    if inst(snode["id"]) and ("steps:" + snode["id"]) not in used:
                        self.viol("non-matching-catch-ran", "steps of a non-matching catch ran (%s)" % snode["id"])
        if not final:
            return
        if errs:
            self.viol("caught-but-error-event", "the error was caught but an error event was delivered")
        if len(comps) != 1 or comps[0][1]["state"] != "Completed":
            self.viol("caught-flow-not-completed:%s" % (comps[0][1]["state"] if comps else "none"), "after the catch the flow did not run to completion")
        # successors of the catcher at its own level ran
        if catcher + 1 < len(chain):
            pk, pn = chain[catcher + 1]
            sibs = pn.get("acts" if ckind == "act" else "steps", []) or []
            ids = [x["id"] for x in sibs]
            if cn["id"] in ids:
                for nxt in sibs[ids.index(cn["id"]) + 1 :]:
                    if nxt.get("if"):
                        continue
                    if not inst(nxt["id"]) or inst(nxt["id"])[-1]["state"] != "Completed":
                        self.viol("successor-did-not-run", "successor %s of the catching task did not complete" % nxt["id"])

    # ================================================================== C04 conformance with a reference interpretation
    def cond_value(self, expr, zmodel):
        if isinstance(zmodel, dict):
            return bool(eval(expr.replace("&&", " and ").replace("||", " or "), {"__builtins__": {}}, dict(zmodel)))
        env = {k: v for k, v in self.sym.items()}
        term = eval(expr.replace("&&", " and ").replace("||", " or "), {"__builtins__": {}}, env)  # comparisons over the symbolic inputs
        if isinstance(term, bool):
            return term
        return z3.is_true(zmodel.eval(term, model_completion=True))

    def reference(self, zmodel):
        """Nodes that run and their final states under the reference interpretation of the model."""
        val = lambda e: self.cond_value(e, zmodel)
        out = {}
        order = []  # (pred nid, succ nid): pred terminal before succ created

        def run_steps(steps):
            prev = None
            for st in steps:
                if prev is not None:
                    order.append((prev, st["id"]))
                run_step(st)
                prev = st["id"]

        def run_step(st):
            if st.get("if") and not val(st["if"]):
                out[st["id"]] = "Skipped"
                return
            bs = st.get("branches") or []
            if bs:
                conds = {b["id"]: val(b["if"]) for b in bs if b.get("if") and not b.get("needs")}
                any_true = any(conds.values())
                for b in bs:
                    if b.get("needs"):
                        runs = True
                        if len(b["needs"]) == 1:
                            order.append((b["needs"][0], b["id"] + "#run"))
                        else:
                            # several needed siblings: the branch starts after A needed sibling finished (any of them)
                            order.append((tuple(b["needs"]), b["id"] + "#run-any"))
                    elif b.get("if"):
                        runs = conds[b["id"]]
                    elif b.get("else"):
                        runs = not any_true
                    else:
                        runs = False
                    if runs:
                        run_steps(b.get("steps") or [])
                        out[b["id"]] = "Completed"
                    else:
                        out[b["id"]] = "Skipped"
            prev = None
            for a in st.get("acts") or []:
                if prev is not None:
                    order.append((prev, a["id"]))
                out[a["id"]] = "Skipped" if (a.get("if") and not val(a["if"])) else "Completed"
                prev = a["id"]
            out[st["id"]] = "Completed"

        run_steps(self.model.get("steps") or [])
        out[self.model["id"]] = "Completed"
        return out, order

    def q_c04(self, where):
        """At quiescence a needs-branch whose needed sibling (any of them) has finished is not waiting any more."""
        ts = self.tasks()
        by_tid = {t["tid"]: t for t in ts}
        for t in ts:
            if t["kind"] != "Branch" or t["state"] != "Pending":
                continue
            r = self.node_attr(t["nid"])
            needs = (r[1].get("needs") if r else None) or []
            if not needs:
                continue
            p = self.parent_of(t, by_tid)
            sibs = [x for x in ts if x["kind"] == "Branch" and x["tid"] != t["tid"] and self.parent_of(x, by_tid) is not None and p is not None and self.parent_of(x, by_tid)["tid"] == p["tid"]]
            done = [x["nid"] for x in sibs if x["nid"] in needs and x["state"] in TERMINAL]
            if done:
                self.viol("needs-branch-waits-although-needed-finished", "at quiescence branch %s (needs %s) is still pending although %s finished" % (t["nid"], needs, done))

    def e_c04(self, concrete=None):
        W = self.W
        if concrete is not None:
            zm = concrete
        else:
            zm = self.I.model()
        if zm is None:
            return
        self.res.witnesses += 1
        ts = self.tasks()
        if not self.terminal_events():
            leaves = sorted(set("%s(%s)=%s" % (t["kind"], self.attr_desc(t), t["state"]) for t in ts if t["state"] in ("Pending",)))
            self.viol("unfinished:" + ",".join(leaves), "the process did not finish after every interrupt was completed (see C01)")
            return
        exp, order = self.reference(zm)
        got = {}
        for t in ts:
            got.setdefault(t["nid"], []).append(t)
        vals = dict(zm) if isinstance(zm, dict) else {k: str(zm.eval(v, model_completion=True)) for k, v in self.sym.items()}
        for nid, st in exp.items():
            inst = got.get(nid, [])
            kind = (self.node_attr(nid) or ("?", None))[0]
            if len(inst) != 1:
                # a node skipped by its own `if` may or may not have a task; a skipped node must not run twice
                self.viol("node-instances:%s:%s=%d" % (kind, st, len(inst)), "%s %s should end %s exactly once but has %d task(s) (inputs %s)" % (kind, nid, st, len(inst), vals))
            elif inst[0]["state"] != st:
                self.viol("node-state:%s(%s):%s!=%s" % (kind, self.attr_desc(inst[0]), inst[0]["state"], st),
                          "%s %s ended %s, the reference says %s (inputs %s)" % (kind, nid, inst[0]["state"], st, vals))
        for nid, inst in got.items():
            if nid not in exp:
                kind = (self.node_attr(nid) or ("dyn", None))[0]
                self.viol("node-ran-unexpectedly:%s=%s" % (kind, inst[0]["state"]), "%s %s has a task (%s) but should not have run (inputs %s)" % (kind, nid, inst[0]["state"], vals))
        # ordering: predecessor terminal before successor created / resumed
        first_created = {}
        first_terminal = {}
        first_running = {}
        tid2nid = {t["tid"]: t["nid"] for t in ts}
        for i, e in enumerate(W.trace):
            nid = tid2nid.get(e["tid"])
            if nid is None:
                continue
            new = STATE_NAMES[e["new"]]
            if new != "None" and nid not in first_created:
                first_created[nid] = i
            if new in TERMINAL and nid not in first_terminal:
                first_terminal[nid] = i
            if new == "Running" and nid not in first_running:
                first_running[nid] = i
        for pred, succ in order:
            if succ.endswith("#run-any"):
                s_id = succ[:-8]
                done = [first_terminal[p] for p in pred if p in first_terminal]
                if s_id in first_running and (not done or min(done) > first_running[s_id]):
                    self.viol("order:needs-before-needed-finished", "needs-branch %s started before any of %s finished" % (s_id, list(pred)))
                continue
            if succ.endswith("#run"):
                s_id = succ[:-4]
                if s_id in first_running and (pred not in first_terminal or first_terminal[pred] > first_running[s_id]):
                    self.viol("order:needs-before-needed-finished", "needs-branch %s started before %s finished" % (s_id, pred))
                continue
            if succ in first_created and pred in first_created:
                if pred not in first_terminal or first_terminal[pred] > first_created[succ]:
                    self.viol("order:successor-before-predecessor-terminal:%s" % (self.node_attr(succ) or ("?",))[0], "%s was created before %s was terminal" % (succ, pred))

    # ================================================================== C11 store image
    def store_rows(self, which, pid):
        """Rows of collection `which` ('tasks' | 'procs') whose pid matches, read through the real collection code."""
        I = self.I
        W = self.W
        dtype = {"tasks": "store::data::task::Task", "procs": "store::data::proc::Proc"}[which]
        coll = I.call_raw("store::store::Store::%s" % which, [Ptr(W.store.c, 0)], None)
        q = I.call_raw("store::query::Query::new", [], None)
        r = I.call_raw("<dyn store::DbCollection<Item = %s> as store::DbCollection>::query" % dtype, [Ptr(coll.c, 0), Ptr([q], 0)], None)
        if r.d != 0:
            raise Unsupported("store query failed")
        pf = {f[0]: i for i, f in enumerate(I.p.src.struct_fields("PageData"))}
        rows = r.f[0].f[pf["rows"]].a
        names = [f[0] for f in I.p.src.struct_fields(dtype)]
        out = []
        for row in rows:
            d = dict(zip(names, row.f))
            key = d["pid"] if which == "tasks" else d["id"]
            if key == pid:
                out.append(d)
        return out

    def q_c11(self, where):
        I = self.I
        W = self.W
        from mirsym.intr_core import struct_eq
        if W.proc(self.pid) is None:
            # the process has ended and left the cache.  By default its rows are gone too (C17); with keep_processes they stay, and must show the states the tasks ended in
            if self.cfg.keep:
                self.q_c11_final()
            return
        self.res.witnesses += 1
        live = W.tasks(self.proc)
        rows = {r["tid"]: r for r in self.store_rows("tasks", self.pid)}
        live_ids = set()
        for t in live:
            info = W.task_info(t)
            live_ids.add(info["tid"])
            want = I.call_raw(T_ + "::into_data", [Ptr([t], 0)], None)
            if want.d != 0:
                continue
            want = want.f[0]
            names = [f[0] for f in I.p.src.struct_fields("store::data::task::Task")]
            row = rows.get(info["tid"])
            if row is None:
                self.viol("task-row-missing:%s" % info["kind"], "live task %s (%s) has no row in the store" % (info["nid"], info["state"]))
                continue
            for fn, a in zip(names, want.f):
                b = row[fn]
                eq = struct_eq(I, a, b)
                if eq is True:
                    continue
                if eq is False or I.check_sat(z3.Not(eq)):
                    self.viol("task-row-stale:%s:%s" % (fn, self.stale_cause(info, fn)), "stored %s of task %s (%s) differs from the live task: stored %s, live %s" % (
                        fn, info["nid"], info["kind"], str(W.py(b))[:120], str(W.py(a))[:120]))
        for tid in rows:
            if tid not in live_ids:
                self.viol("task-row-orphan", "the store has a task row %s that the live process does not know" % tid)
        prow = self.store_rows("procs", self.pid)
        if len(prow) != 1:
            self.viol("proc-rows=%d" % len(prow), "%d process rows in the store for a live process" % len(prow))
            return
        want = I.call_raw("scheduler::process::process::Process::into_data", [Ptr([self.proc], 0)], None)
        if want.d == 0:
            names = [f[0] for f in I.p.src.struct_fields("store::data::proc::Proc")]
            for fn, a in zip(names, want.f[0].f):
                if fn == "model":
                    continue
                eq = struct_eq(I, a, prow[0][fn])
                if eq is True:
                    continue
                if eq is False or I.check_sat(z3.Not(eq)):
                    self.viol("proc-row-stale:%s" % fn, "stored process %s differs from the live process: stored %s, live %s" % (fn, str(W.py(prow[0][fn]))[:100], str(W.py(a))[:100]))

    def q_c11_final(self):
        """keep_processes, after the terminal event: every task of the ended process has a row, and the row's state is the state the task ended in
        (only the state is compared here: it is what the real engine's state-write trace lets the replay confirm once the process is out of the cache)."""
        W = self.W
        self.res.witnesses += 1
        rows = {r["tid"]: r for r in self.store_rows("tasks", self.pid)}
        for t in W.tasks(self.proc):
            info = W.task_info(t)
            row = rows.get(info["tid"])
            if row is None:
                self.viol("final-row-missing:%s" % info["kind"], "keep_processes: ended task %s (%s) has no row in the store" % (info["nid"], info["state"]))
                continue
            st = W.py(row["state"])
            if str(st).lower() != info["state"].lower():
                self.viol("final-row-stale:state:%s" % info["kind"], "keep_processes: stored state of ended task %s is %s, the task ended %s" % (info["nid"], st, info["state"]))

    def stale_cause(self, info, fn):
        if fn == "data":
            return "ancestor-updated-by-descendant" if info["kind"] in ("Workflow", "Step", "Branch") or info["state"] == "Running" else info["kind"]
        return info["kind"]

    # ================================================================== C17 retention
    def q_c17(self, where):
        W = self.W
        if not self.terminal_events():
            return
        self.res.witnesses += 1
        trows = self.store_rows("tasks", self.pid)
        prows = self.store_rows("procs", self.pid)
        keep = bool(self.cfg.keep)
        if not keep:
            if trows:
                self.viol("rows-left:tasks=%d" % len(trows), "%d task rows remain after the terminal event (default configuration)" % len(trows))
            if prows:
                self.viol("rows-left:proc", "the process row remains after the terminal event (default configuration)")
        else:
            if len(prows) != 1:
                self.viol("keep:proc-rows=%d" % len(prows), "keep_processes: %d process rows after the terminal event" % len(prows))
            live = self.tasks()
            if len(trows) != len(live):
                self.viol("keep:task-rows=%d/%d" % (len(trows), len(live)), "keep_processes: %d task rows for %d tasks" % (len(trows), len(live)))
            ending = self.terminal_events()[0][1]["state"]
            for r in prows:
                st = W.py(r["state"])
                if st != ending.lower():
                    self.viol("keep:proc-state:%s/%s" % (st, ending), "stored process state %s, terminal event said %s" % (st, ending))
            if ending in ("Completed",):
                for r in trows:
                    st = W.py(r["state"])
                    if st.capitalize() not in TERMINAL and st != "interrupted" or st == "interrupted":
                        if st not in [x.lower() for x in TERMINAL]:
                            self.viol("keep:task-row-not-terminal:%s" % st, "stored task %s is %s after a completed ending" % (W.py(r["tid"]), st))

    def e_c17(self):
        W = self.W
        if not self.terminal_events() or self.cfg.keep:
            return
        # every further action on the finished process is refused
        ts = self.tasks()
        acts = [t for t in ts if t["kind"] == "Act"]
        if acts:
            r = W.action(self.pid, acts[0]["tid"], "Next", {})
            W.drain()
            if r is not None and r.d == 0:
                self.viol("action-accepted-after-removal", "an action on a removed process was accepted")
            if self.store_rows("tasks", self.pid) or self.store_rows("procs", self.pid):
                self.viol("rows-resurrected", "rows of a removed process reappeared after a refused action")

    # ================================================================== C05 admission
    def a_c05(self, t, kind, accepted, before, nmsg, ntrace):
        W = self.W
        self.res.witnesses += 1
        after = self.snapshot()
        terminal_before = t["state"] in TERMINAL
        seven = ("Next", "Submit", "Skip", "Remove", "Abort", "Error", "Back")
        if accepted:
            if kind == "Push":
                if t["kind"] != "Step":
                    self.viol("accepted:Push-on-%s" % t["kind"], "push accepted on a %s task" % t["kind"])
            elif t["kind"] != "Act":
                self.viol("accepted:%s-on-%s" % (kind, t["kind"]), "%s accepted on a %s task" % (kind, t["kind"]))
            elif kind in seven and terminal_before:
                self.viol("accepted-on-terminal:action=%s" % kind, "%s accepted on act %s which is already %s" % (kind, t["nid"], t["state"]))
            if (self.current_action or {}).get("omitted") and t["kind"] == "Act":
                self.viol("accepted-without-declared-output:action=%s" % kind, "%s accepted on act %s although its declared output %s was not supplied" % (kind, t["nid"], self.current_action["omitted"]))
        elif accepted is False and kind in seven:
            changed = [tid for tid in after if before.get(tid) != after[tid]] + [tid for tid in before if tid not in after]
            if changed or len(W.messages) != nmsg:
                self.viol("rejected-but-changed:action=%s" % kind,
                          "%s on %s (%s) was rejected but changed tasks %s / emitted %d messages" % (kind, t["nid"], t["state"], changed, len(W.messages) - nmsg))


class TraceList(list):
    """State-write trace annotated with the client action in flight, hook context and 'reported' flag."""

    owner = None

    def append(self, e):
        run = self.owner
        if run is not None:
            I = run.I
            a = run.current_action
            if a is not None:
                ds = [I.p.src.enum_variant("EventAction", k) for k in KINDS]
                name = None
                ev = a["ev"]
                if isinstance(ev, str):
                    name = ev
                else:
                    for k, x in zip(KINDS, ds):
                        if not I.check_sat(ev != x):
                            name = k
                e["action"] = name or "?"
            e["in_hook"] = any("hook" in f.name and "::run" in f.name for f in I.call_stack)
            e["reported"] = run.terminal_reported.get(e["tid"]) is not None
        list.append(self, e)

    def __deepcopy__(self, memo):
        t = TraceList(copy.deepcopy(list(self), memo))
        return t


def install_trace_context(run):
    W = run.W
    if not isinstance(W.trace, TraceList):
        W.trace = TraceList(W.trace)
    W.trace.owner = run


def run_scenario(I, name, cfg_kw, prop):
    cfg = Cfg(**cfg_kw)
    snaps = {} if cfg.k > 0 and cfg_kw.get("snapshots", True) else None

    def one(I, res):
        r = Run(I, res, name, cfg, prop)
        orig_boot = r.boot

        def boot():
            W = orig_boot()
            return W

        r.boot = boot
        # boot() creates the world; trace context must be installed right after World creation, before start():
        orig_install = r.install_event_monitor

        def inst(rebind=False):
            orig_install(rebind)
            install_trace_context(r)

        r.install_event_monitor = inst
        r.run(snaps)

    res = explore(I, name, one, max_paths=cfg.max_paths, seed=cfg_kw.get("seed", 0), part=cfg_kw.get("part"))
    if cfg_kw.get("part"):
        res.name = "%s[%d/%d]" % (name, cfg_kw["part"][0], cfg_kw["part"][1])
    if cfg_kw.get("confirm", True) and res.violations:
        seen = {}
        for v in res.violations:
            if v.role in seen:
                v.confirmed, v.replay = seen[v.role]
                continue
            if len(seen) >= 8:
                v.confirmed, v.replay = None, None
                continue
            okc, info = confirm(v, name, cfg, prop)
            v.confirmed, v.replay = okc, info
            seen[v.role] = (okc, info)
    return res


# ============================================================================ replay confirmation
class _FakeWorld:
    def __init__(self, obs, pack):
        self.messages = obs["messages"]
        self.events = obs["events"]
        self.panics = []
        self.trace = []
        self._pack = pack

    def packages(self):
        return self._pack


class _RunAs:
    def __init__(self, vn):
        self.vn = vn


STATE_MAP_R = {"none": "None", "ready": "Ready", "pending": "Pending", "running": "Running", "interrupted": "Interrupt", "completed": "Completed",
               "submitted": "Submitted", "backed": "Backed", "cancelled": "Cancelled", "error": "Error", "aborted": "Aborted", "skipped": "Skipped", "removed": "Removed"}
PACK_RUN_AS = {"acts.core.irq": "Irq", "acts.core.msg": "Msg"}


class ReplayRun(Run):
    """The same oracles evaluated on what the real engine showed."""

    def __init__(self, name, cfg, prop, obs, model):
        self.name = name
        self.cfg = cfg
        self.prop = prop
        self.model = model
        self.sym = {}
        self.log = []
        self.found = []
        self.obs = obs
        self.pid = obs["procs"][0]["pid"] if obs["procs"] else None
        pack = {}
        for a in self.all_act_nodes():
            u = a.get("uses", "")
            pack[u] = {"run_as": _RunAs(PACK_RUN_AS.get(u, "Func"))}
        self.W = _FakeWorld(obs, pack)
        self.terminal_reported = {}
        self.catch_revived = set()
        self.current_action = None

        class R:
            witnesses = 0

        self.res = R()

    def viol(self, role, desc, detail=None):
        if self.prop in ("C02", "C05", "C08", "C06"):
            role = role + self.history_tag()
        self.found.append((role, desc))

    def level_of(self, nid):
        def walk(n, depth):
            if n.get("id") == nid:
                return depth
            for k2, c, _ in kids(n):
                r = walk(c, depth + 1)
                if r is not None:
                    return r
            return None

        return walk(self.model, 0)

    def tasks(self):
        out = []
        if not self.obs["procs"]:
            return out
        for t in self.obs["procs"][0]["tasks"]:
            t = dict(t)
            r = self.node_attr(t["nid"])
            node = r[1] if r else {}
            lv = self.level_of(t["nid"])
            t["level"] = lv if lv is not None else 99
            t["uses"] = node.get("uses", "") if t["kind"] == "Act" else ""
            t["hooks"] = ["Timeout"] if node.get("timeout") else []
            t["err"] = self.live_err(t["tid"])
            out.append(t)
        return out

    def proc_state(self):
        return self.obs["procs"][0]["state"]

    def live_err(self, tid):
        import json as _json
        for lv in self.obs.get("live") or []:
            for t in (lv or {}).get("tasks", []):
                if t["tid"] == tid and t.get("err"):
                    try:
                        return _json.loads(t["err"]) if isinstance(t["err"], str) else t["err"]
                    except ValueError:
                        return {"raw": t["err"]}
        return None

    def trace_events(self):
        return [(e["tid"], e["new"], e.get("how")) for e in (self.obs.get("trace") or [])]

    def q_c02(self, where):
        pass

    def q_c17(self, where):
        pass

    def e_c17(self):
        pass

    def r_c17(self, v, obs):
        evs = [e for e in obs["events"] if e[0] in ("complete", "error")]
        if not evs:
            return
        trows = obs.get("stored_tasks", [])
        prows = obs.get("stored_procs", [])
        if not self.cfg.keep:
            if trows:
                self.found.append(("rows-left:tasks=%d" % len(trows), ""))
            if prows:
                self.found.append(("rows-left:proc", ""))
            acted = [r for r in obs["results"] if r.get("op") == "action"]
            if acted and acted[-1].get("ok") and v.role == "action-accepted-after-removal":
                self.found.append(("action-accepted-after-removal", ""))
        else:
            if len(prows) != 1:
                self.found.append(("keep:proc-rows=%d" % len(prows), ""))
            ending = evs[0][1]["state"]
            for r in prows:
                if r["state"] != ending.lower():
                    self.found.append(("keep:proc-state:%s/%s" % (r["state"], ending), ""))
            if ending == "Completed":
                for r in trows:
                    if r["state"] not in [x.lower() for x in TERMINAL]:
                        self.found.append(("keep:task-row-not-terminal:%s" % r["state"], ""))

    def q_c11(self, where):
        pass

    def r_c11(self, v, obs):
        """Final quiescent state of the real engine: live dump (verif hook) against the rows of the memory store."""
        full = obs.get("trace") or []
        self._kinds = {}
        for sn in list(obs.get("snapshots") or []) + [obs]:
            for p in sn.get("procs") or []:
                for t in p.get("tasks") or []:
                    self._kinds[(p.get("pid"), t["tid"])] = t["kind"]
        for sn in list(obs.get("snapshots") or []) + [obs]:
            self.c11_view(sn)
            if self.cfg.keep:
                self.c11_final_view(sn, full[: sn.get("ntrace", len(full))] if sn is not obs else full)

    def c11_final_view(self, obs, trace):
        """keep_processes: a process that is no longer live (out of the cache) is compared through the state-write trace: last traced state of every task = state of its row"""
        live = obs.get("live") or []
        pids = set(t["pid"] for t in obs.get("stored_tasks", []))
        live_pids = set(lv["pid"] for lv in live if lv)
        for pid in pids - live_pids:
            last = {}
            for e in trace:
                if e.get("pid") == pid:
                    if e.get("how") == "new":
                        last.setdefault(e["tid"], "none")
                    else:
                        last[e["tid"]] = e["new"]
            rows = {t["tid"]: t for t in obs.get("stored_tasks", []) if t["pid"] == pid}
            for tid, st in last.items():
                r = rows.get(tid)
                if r is None:
                    self.found.append(("final-row-missing:%s" % self._kinds.get((pid, tid), "?"), tid))
                elif str(r.get("state")).lower() != str(st).lower():
                    self.found.append(("final-row-stale:state:%s" % self._kinds.get((pid, tid), "?"), "%s: stored %r, last written %r" % (tid, r.get("state"), st)))

    def c11_view(self, obs):
        for lv in obs.get("live") or []:
            if not lv:
                continue
            rows = {t["tid"]: t for t in obs.get("stored_tasks", []) if t["pid"] == lv["pid"]}
            for t in lv["tasks"]:
                r = rows.get(t["tid"])
                info = dict(kind=t["kind"].capitalize(), state=STATE_MAP_R.get(t["state"], t["state"]))
                if r is None:
                    self.found.append(("task-row-missing:%s" % info["kind"], t["nid"]))
                    continue
                for fn in ("state", "prev", "data", "err", "start_time", "end_time"):
                    if r.get(fn) != t.get(fn):
                        self.found.append(("task-row-stale:%s:%s" % (fn, self.stale_cause(info, fn)), "%s: stored %r live %r" % (t["nid"], r.get(fn), t.get(fn))))
            for p in obs.get("stored_procs", []):
                if p["id"] == lv["pid"]:
                    for fn in ("state", "env", "err"):
                        if p.get(fn) != lv.get(fn):
                            self.found.append(("proc-row-stale:%s" % fn, "stored %r live %r" % (p.get(fn), lv.get(fn))))

    def r_c04(self, v, obs):
        conc = {k: (int(x) if x not in ("True", "False") else x == "True") for k, x in (v.model or {}).items() if not k.startswith("act")}
        idx = {n: i for i, n in enumerate(STATE_NAMES)}
        self.W.trace = [dict(tid=e["tid"], new=idx.get(e["new"], 0), old=idx.get(e["old"], 0)) for e in obs["trace"]]
        self.e_c04(conc)

    def r_c06(self, v, obs):
        errs = [e for e in self.log if e.get("action") == "Error"]
        if not errs and getattr(self.cfg, "engine_errors", None):
            self.e_c06()
            return
        if not errs:
            return
        self.err_cases = [dict(nid=e["target"], code=e["options"]["ecode"], accepted=bool(e.get("accepted"))) for e in errs]
        self.e_c06()

    def r_c05(self, v, obs):
        """The admission oracle on what the real engine answered: result of every scripted action against the snapshot before / after it."""
        seven = ("Next", "Submit", "Skip", "Remove", "Abort", "Error", "Back")
        entries = [e for e in self.log if e.get("action") or "answer" in e]
        acts = [r for r in obs["results"] if r.get("op") == "action"]
        snaps = obs["snapshots"]
        hist = []
        for j, (e, r) in enumerate(zip(entries, acts)):
            if j + 1 >= len(snaps) or not snaps[j]["procs"]:
                break
            kind = e.get("action")
            if kind in ("Back", "Cancel", "Push") and r.get("ok") and ("after-" + kind.lower()) not in hist:
                hist.append("after-" + kind.lower())
            if not kind:
                continue
            order = [x for x in ("after-back", "after-cancel", "after-push") if x in hist]
            tag = ("+" + "+".join(order)) if order else ""
            before = {t["tid"]: t for t in snaps[j]["procs"][0]["tasks"]}
            after = {t["tid"]: t for t in snaps[j + 1]["procs"][0]["tasks"]} if snaps[j + 1]["procs"] else {}
            t = before.get(r.get("tid"))
            if t is None:
                continue
            if r.get("ok"):
                if kind == "Push":
                    if t["kind"] != "Step":
                        self.found.append(("accepted:Push-on-%s%s" % (t["kind"], tag), ""))
                elif t["kind"] != "Act":
                    self.found.append(("accepted:%s-on-%s%s" % (kind, t["kind"], tag), ""))
                elif kind in seven and t["state"] in TERMINAL:
                    self.found.append(("accepted-on-terminal:action=%s%s" % (kind, tag), "%s was %s" % (t["nid"], t["state"])))
                if e.get("omitted") and t["kind"] == "Act":
                    self.found.append(("accepted-without-declared-output:action=%s%s" % (kind, tag), e["omitted"]))
            elif kind in seven:
                changed = [tid for tid in after if tid not in before or (before[tid]["state"], before[tid]["data"]) != (after[tid]["state"], after[tid]["data"])]
                changed += [tid for tid in before if tid not in after]
                if changed or snaps[j]["nmsg"] != snaps[j + 1]["nmsg"]:
                    self.found.append(("rejected-but-changed:action=%s%s" % (kind, tag), "changed %s" % changed))

    def r_c02(self, v, obs):
        """The same lifecycle oracle on the state-write trace of the real engine (verif hook)."""
        revived = set()
        for e in obs["trace"]:
            old, new = e["old"], e["new"]
            if old == new or old not in RANK or new not in RANK:
                continue
            if RANK[new] < RANK[old]:
                if old == "Error" and new == "Running" and e["tid"] not in revived:
                    revived.add(e["tid"])
                    continue
                self.found.append(("backward:%s->%s:%s" % (old, new, e["kind"]), "trace"))
            elif old in TERMINAL:
                self.found.append(("rewrite-after-terminal:%s" % e["kind"], "trace %s->%s" % (old, new)))
        # roles carry the action kind as last segment, which the trace does not show: compare without it
        want = ":".join(v.role.split(":")[:-1])
        if any(r == want for r, d in self.found):
            self.found.append((v.role, "matched on the real state-write trace"))


def concrete_inputs(run_inputs, model):
    out = {}
    for k, v in run_inputs.items():
        if v in ("$bool", "$int"):
            mv = (model or {}).get(k)
            if v == "$bool":
                out[k] = (mv == "True")
            else:
                out[k] = int(mv) if mv is not None else 0
        else:
            out[k] = v
    return out


def confirm(v, name, cfg, prop, attempts=None):
    """Replay violation v on the real engine; True if the same role shows up, False if not, None if not replayable."""
    from . import replay
    model, inputs = scen.catalogue()[name]
    script = v.decisions["script"]
    # occurrences of repeated node ids are resolved by creation order; the scripts here address first occurrences
    sc_inputs = concrete_inputs(inputs, v.model)
    flavors = {"fifo": [0, 4, 1], "lifo": [1, 4, 0], "explore": [0, 1, 4, 2]}[cfg.policy]
    last = None
    tried = []
    for th in flavors:
        for attempt in range(2):
            sc = replay.scenario_of(model, sc_inputs, script, threads=th, config=({"keep_processes": bool(cfg.keep)} if (prop == "C17" or cfg.keep) else None))
            out = replay.run(sc)
            if "error" in out:
                last = out["error"]
                continue
            obs = replay.normalise(out)
            roles = []
            views = []
            for sn in obs["snapshots"]:
                if sn["procs"]:
                    views.append(dict(obs, procs=sn["procs"], messages=obs["messages"][: sn["nmsg"]], events=obs["events"][: sn["nevents"]]))
            views.append(obs)
            rr = None
            for view in views:
                rr = ReplayRun(name, cfg, prop, view, model)
                rr.log = script
                for o in cfg.oracles:
                    f = getattr(rr, "q_" + o, None)
                    if f:
                        f("replay")
                roles += [r for r, d in rr.found]
            for o in cfg.oracles:
                f = getattr(rr, "r_" + o, None)
                if f:
                    rr.found = []
                    f(v, obs)
                    roles += [r for r, d in rr.found]
            tried.append(dict(threads=th, roles=roles, tasks=[(t["nid"], t["state"]) for t in rr.tasks()], results=[(r.get("op"), r.get("ok")) for r in obs["results"]]))
            if v.role in roles:
                return True, dict(threads=th, scenario=sc, observed=tried[-1])
    return False, dict(tried=tried[-6:], error=last)
