"""C16: generated acts (parallel / sequence over a list) and lifecycle hooks run exactly as often as specified."""
import z3

from mirsym.values import *
from mirsym.world import World, STATE_NAMES, TERMINAL
from mirsym.harness import Violation, explore
from . import scen
from .flow import Run, Cfg, install_trace_context


def gen_model(mode, n, inner=1, nested=False, vals=None):
    vals = vals if vals is not None else ["u%d" % i for i in range(n)]
    acts = [{"uses": "acts.core.irq", "key": "r%d" % j} for j in range(inner)]
    if nested:
        acts = [{"uses": "acts.core.sequence", "params": {"in": ["x", "y"], "acts": [{"uses": "acts.core.irq", "key": "nr"}]}}]
    g = {"id": "gen", "uses": "acts.core." + mode, "params": {"in": vals, "acts": acts}}
    return scen.wf("m", [scen.step("s1", [g]), scen.step("s2", [scen.irq("z1")])])


def hook_model(on_what):
    hooks = [{"uses": "acts.core.msg", "key": "h_" + ev, "on": ev} for ev in ("created", "completed", "before_update", "updated", "step")]
    if on_what in ("step-block", "step-generator"):
        # hooks on the step AND on the workflow (other keys); the step's acts sit below a block / are generated at run time
        whooks = [{"uses": "acts.core.msg", "key": "w_" + ev, "on": ev} for ev in ("before_update", "updated")]
        inner = (scen.block("blk", "parallel", [scen.irq("a1"), scen.irq("a2"), scen.irq("a3")]) if on_what == "step-block" else
                 {"id": "gen", "uses": "acts.core.parallel", "params": {"in": [1, 2, 3], "acts": [{"uses": "acts.core.irq", "key": "r"}]}})
        return scen.wf("m", [scen.step("s1", [inner], setup=hooks)], setup=whooks)
    if on_what == "step":
        return scen.wf("m", [scen.step("s1", [scen.irq("a1"), scen.irq("a2")], setup=hooks), scen.step("s2", [scen.irq("a3")])])
    if on_what == "workflow":
        return scen.wf("m", [scen.step("s1", [scen.irq("a1"), scen.irq("a2")]), scen.step("s2", [scen.irq("a3")])], setup=hooks)
    return scen.wf("m", [scen.step("s1", [scen.irq("a1", setup=hooks), scen.irq("a2")]), scen.step("s2", [scen.irq("a3")])])


class GRun(Run):
    def __init__(self, I, res, name, model, cfg, prop):
        self.I = I
        self.res = res
        self.name = name
        self.cfg = cfg
        self.prop = prop
        self.model = model
        self.inputs = {}
        self.sym = {}
        self.log = []
        self.current_action = None
        self.terminal_reported = {}
        self.catch_revived = set()

    def irq_msgs(self, key_prefix="r"):
        return [m for m in self.W.messages if m["type"] == "act" and m["state"] == "Created" and str(m["key"]).startswith(key_prefix)]

    def open_gen_irqs(self):
        return [t for t in self.tasks() if t["kind"] == "Act" and t["state"] == "Interrupt" and t["uses"] == "acts.core.irq" and t["nid"] != "z1"]

    def idx_of(self, t):
        for m in self.W.messages:
            if m["tid"] == t["tid"] and m["state"] == "Created":
                o = (m.get("inputs") or {}).get("options") or {}
                return o.get("$index"), o.get("$value")
        return None, None


def run_generated(I, res, prop, mode, n, inner, policy):
    cfg = Cfg(policy=policy, k=0, oracles=())
    # the list elements are symbolic integers: "every group sees its own value" is decided for all values
    us = [z3.Int("u%d" % i) for i in range(n)]
    for u in us:
        I.assume(z3.And(u >= -1000, u <= 1000))
    r = GRun(I, res, "gen:%s:n=%d:inner=%d" % (mode, n, inner), gen_model(mode, n, inner, vals=us), cfg, prop)
    for u in us:
        r.sym[str(u)] = u
    orig = r.install_event_monitor
    r.install_event_monitor = lambda rebind=False: (orig(rebind), install_trace_context(r))
    W = r.boot()
    W.drain()
    res.witnesses += 1
    tag = "%s:n=%d" % (mode, n)
    blocks = [t for t in r.tasks() if t["uses"] == "acts.core.block"]
    gen = [t for t in r.tasks() if t["nid"] == "gen"][0]
    seen_groups = []
    if mode == "parallel":
        if len(blocks) != n:
            r.viol("parallel:groups-opened=%d/%d" % (len(blocks), n), "a parallel act over %d elements opened %d groups at once" % (n, len(blocks)))
        openi = r.open_gen_irqs()
        if len(openi) != n:
            r.viol("parallel:open-acts=%d/%d" % (len(openi), n), "%d generated interrupts are open at once, expected %d" % (len(openi), n))
        seen_groups = [r.idx_of(t) for t in openi]
        # complete them in a chosen order
        while True:
            openi = r.open_gen_irqs()
            if not openi:
                break
            t = openi[I.path.choose(len(openi), "which")] if len(openi) > 1 else openi[0]
            g2 = [x for x in r.tasks() if x["nid"] == "gen"][0]
            if g2["state"] in TERMINAL:
                r.viol("generator-finished-early:%s" % mode, "the generating act is %s while generated acts are open" % g2["state"])
            W.action(r.pid, t["tid"], "Next", {})
            W.drain()
            seen_groups += [r.idx_of(x) for x in r.open_gen_irqs() if r.idx_of(x) not in seen_groups]
    else:
        order = []
        guard = 0
        while guard < 10:
            guard += 1
            openi = r.open_gen_irqs()
            if not openi:
                break
            grp = set(r.idx_of(t)[0] for t in openi)
            if len(grp) > 1:
                r.viol("sequence:groups-open-at-once=%d" % len(grp), "a sequence act has %d groups open at once" % len(grp))
            order.append(r.idx_of(openi[0])[0])
            seen_groups += [r.idx_of(x) for x in openi if r.idx_of(x) not in seen_groups]
            g2 = [x for x in r.tasks() if x["nid"] == "gen"][0]
            if g2["state"] in TERMINAL:
                r.viol("generator-finished-early:%s" % mode, "the generating act is %s while generated acts are open" % g2["state"])
            W.action(r.pid, openi[0]["tid"], "Next", {})
            W.drain()
        if any(x is None for x in order):
            r.viol("sequence:index-value:missing-on-later-act(None)", "an act of a generated group carries no $index/$value (only the first act of the group does)")
            order = [x for x in order if x is not None]
        dedup = [x for i, x in enumerate(order) if i == 0 or order[i - 1] != x]
        if dedup != list(range(n)):
            r.viol("sequence:group-order:%s" % (dedup,), "groups of a sequence act opened in order %s, expected %s" % (dedup, list(range(n))))
    # every group saw its own index and value, exactly `inner` acts per group
    if mode == "parallel" and any(i is None for i, v in seen_groups):
        r.viol("parallel:index-value:missing-on-later-act(None)", "an act of a generated group carries no $index/$value (only the first act of the group does)")
    got = [(i, v) for i, v in seen_groups if i is not None]
    idxs = sorted(set(i for i, v in got))
    if idxs != list(range(n)):
        r.viol("%s:group-indices:%s" % (mode, idxs), "generated groups carry indices %s, expected %s" % (idxs, list(range(n))))
    for i, v in got:
        if isinstance(i, int) and 0 <= i < n:
            res.obligations += 1
            cond = (v == us[i]) if is_sym(v) or isinstance(v, int) else False
            if cond is False or (cond is not True and I.check_sat(z3.Not(cond))):
                r.viol("%s:value-of-group" % mode, "group %d saw value %r, expected element %d of the list" % (i, v, i))
    allirq = [t for t in r.tasks() if t["uses"] == "acts.core.irq" and t["nid"] != "z1"]
    if len(allirq) != n * inner:
        r.viol("%s:generated-acts=%d/%d" % (mode, len(allirq), n * inner), "%d acts were generated for %d elements x %d acts" % (len(allirq), n, inner))
    gen = [t for t in r.tasks() if t["nid"] == "gen"][0]
    if gen["state"] != "Completed":
        r.viol("generator-not-completed:%s:n=%d:%s" % (mode, n, gen["state"]), "the generating act ended %s after all generated acts were completed" % gen["state"])
    # the flow continues
    z = [t for t in r.tasks() if t["nid"] == "z1"]
    if not z:
        r.viol("flow-stuck-after-generator:%s:n=%d" % (mode, n), "the step after the generator never started")
    if len(res.samples) < 2:
        res.samples.append(dict(mode=mode, n=n, groups=[(i, str(v)) for i, v in got]))


def generated(I, prop, mode, n, inner, policy, max_paths):
    return explore(I, "gen:%s:n=%d:inner=%d:%s" % (mode, n, inner, policy), lambda I, res: run_generated(I, res, prop, mode, n, inner, policy), max_paths=max_paths)


def run_hooks(I, res, prop, on_what, policy):
    cfg = Cfg(policy=policy, k=0, oracles=())
    r = GRun(I, res, "hooks:" + on_what, hook_model(on_what), cfg, prop)
    orig = r.install_event_monitor
    r.install_event_monitor = lambda rebind=False: (orig(rebind), install_trace_context(r))
    W = r.boot()
    W.drain()
    # optional push into the open step
    pushed = 0
    if I.path.choose(2, "push?") == 1:
        if on_what in ("step-block", "step-generator"):
            raise PathInfeasible("no push variant for nested models")
        s1 = [t for t in r.tasks() if t["nid"] == "s1"][0]
        before = len([t for t in r.tasks() if t["kind"] == "Act" and not t["data"].get("$is_event_processed")])
        rr = W.action(r.pid, s1["tid"], "Push", {"uses": "acts.core.irq", "key": "pushed"})
        W.drain()
        after = len([t for t in r.tasks() if t["kind"] == "Act" and not t["data"].get("$is_event_processed")])
        if rr is not None and rr.d == 0:
            pushed = 1
            if after - before != 1:
                r.viol("push:acts-added=%d" % (after - before), "pushing one act into an open step added %d acts" % (after - before))
    n = 0
    while n < 10:
        irqs = r.open_irqs()
        if not irqs or r.terminal_events():
            break
        n += 1
        W.action(r.pid, irqs[0]["tid"], "Next", {})
        W.drain()
    res.witnesses += 1
    cnt = {}
    for m in W.messages:
        if str(m["key"]).startswith(("h_", "w_")):
            cnt[m["key"]] = cnt.get(m["key"], 0) + 1
    acts_in_s1 = 2 + pushed
    if on_what in ("step-block", "step-generator"):
        # every act beneath the step is an act of the step: the step's update hooks fire as often as the workflow's (single step), once per act task
        n_acts = len([t for t in r.tasks() if t["kind"] == "Act" and not t["data"].get("$is_event_processed")])
        want = {"h_created": 1, "h_completed": 1, "h_step": 1, "h_before_update": cnt.get("w_before_update", 0), "h_updated": cnt.get("w_updated", 0)}
        for k in ("w_before_update", "w_updated"):
            if cnt.get(k, 0) != n_acts:
                r.viol("hook:%s:workflow-%s:fired=%d/%d" % (on_what, k[2:], cnt.get(k, 0), n_acts), "workflow hook %s fired %d times for %d act tasks" % (k[2:], cnt.get(k, 0), n_acts))
    elif on_what == "step":
        want = {"h_created": 1, "h_completed": 1, "h_before_update": acts_in_s1, "h_updated": acts_in_s1, "h_step": 1}
    elif on_what == "workflow":
        want = {"h_created": 1, "h_completed": 1, "h_before_update": 3 + pushed, "h_updated": 3 + pushed, "h_step": 2}
    else:
        want = {"h_created": 1, "h_completed": 1}
    for k, w in want.items():
        g = cnt.get(k, 0)
        if g != w:
            r.viol("hook:%s:%s:fired=%d/%d" % (on_what, k[2:], g, w), "hook %s on the %s fired %d times, expected %d (pushed=%d)" % (k[2:], on_what, g, w, pushed))
    if len(res.samples) < 2:
        res.samples.append(dict(hooks_on=on_what, pushed=pushed, fired=cnt))


def hooks(I, prop, on_what, policy, max_paths):
    return explore(I, "hooks:%s:%s" % (on_what, policy), lambda I, res: run_hooks(I, res, prop, on_what, policy), max_paths=max_paths)


# --------------------------------------------------------------------------------------------------- replay

def confirm_gen(v, model, kind):
    """Replay on the real engine (answer everything in creation order) and recompute the counts."""
    from . import replay
    steps = [{"op": "start", "mid": "m", "inputs": {}}]
    if kind == "hooks" and any(t == "push?" and d == 1 for t, d in zip(v.decisions.get("tags", []), v.decisions.get("decisions", []))):
        steps.append({"op": "action", "kind": "push", "nid": "s1", "occurrence": 0, "options": {"uses": "acts.core.irq", "key": "pushed"}})
    steps.append({"op": "answer_all", "max": 16, "options": {}})
    out = replay.run({"config": {"keep_processes": True}, "threads": 0, "models": [model], "steps": steps, "known_nids": sorted(replay.node_ids(model))})
    if "error" in out:
        return None, out
    obs = replay.normalise(out)
    roles = set()
    msgs = obs["messages"]
    tasks = obs["procs"][0]["tasks"] if obs["procs"] else []
    if kind == "hooks":
        cnt = {}
        for m in msgs:
            if str(m["key"]).startswith(("h_", "w_")):
                cnt[m["key"]] = cnt.get(m["key"], 0) + 1
        # role format hook:<on>:<ev>:fired=g/w
        parts = v.role.split(":")
        if parts[0] == "hook":
            g, w = parts[3].split("=")[1].split("/")
            if cnt.get("h_" + parts[2], 0) != int(w):
                roles.add(v.role if cnt.get("h_" + parts[2], 0) == int(g) else v.role + "(count %d)" % cnt.get("h_" + parts[2], 0))
        return (v.role in roles), dict(fired=cnt)
    created = [m for m in msgs if m["type"] == "act" and m["state"] == "Created" and m["uses"] == "acts.core.irq" and m["nid"] != "z1"]
    groups = sorted(set(((m.get("inputs") or {}).get("options") or {}).get("$index") is not None and
                        (((m["inputs"]["options"]).get("$index")), (m["inputs"]["options"]).get("$value")) or (None, None) for m in created), key=repr)
    info = dict(groups=groups, generated=len(created), gen=[t["state"] for t in tasks if t["nid"] == "gen"])
    r = v.role
    if ":index-value:" in r or r.startswith("sequence:group-order"):
        ok_ = any(g[0] is None for g in groups) if "None" in r else True
        return ok_, info
    if ":generated-acts=" in r:
        g = int(r.split("=")[1].split("/")[0])
        return (len(created) == g), info
    if r.startswith("generator-not-completed"):
        return (info["gen"] and info["gen"][0] != "Completed"), info
    if r.startswith("flow-stuck-after-generator"):
        return (not [t for t in tasks if t["nid"] == "z1"]), info
    return None, info


def _with_confirm(res, model_of, kind):
    seen = {}
    for v in res.violations:
        if v.role not in seen and len(seen) < 5:
            seen[v.role] = confirm_gen(v, model_of, kind)
        if v.role in seen:
            v.confirmed, v.replay = seen[v.role]
    return res


_generated_plain = generated
_hooks_plain = hooks


def generated(I, prop, mode, n, inner, policy, max_paths):  # noqa: F811
    return _with_confirm(_generated_plain(I, prop, mode, n, inner, policy, max_paths), gen_model(mode, n, inner), "gen")


def hooks(I, prop, on_what, policy, max_paths):  # noqa: F811
    return _with_confirm(_hooks_plain(I, prop, on_what, policy, max_paths), hook_model(on_what), "hooks")


# --------------------------------------------------------------------------------------------------- nested generators

def nested_model(outer, inner):
    g_in = {"uses": "acts.core." + inner, "params": {"in": ["x", "y", "z"], "acts": [{"uses": "acts.core.irq", "key": "nr"}]}}
    g = {"id": "gen", "uses": "acts.core." + outer, "params": {"in": ["a", "b"], "acts": [g_in]}}
    return scen.wf("m", [scen.step("s1", [g]), scen.step("s2", [scen.irq("z1")])])


def run_nested(I, res, prop, outer, inner, policy):
    cfg = Cfg(policy=policy, k=0, oracles=())
    r = GRun(I, res, "nested:%s>%s" % (outer, inner), nested_model(outer, inner), cfg, prop)
    orig = r.install_event_monitor
    r.install_event_monitor = lambda rebind=False: (orig(rebind), install_trace_context(r))
    W = r.boot()
    W.drain()
    n = 0
    while n < 16:
        irqs = r.open_irqs()
        if not irqs or r.terminal_events():
            break
        n += 1
        W.action(r.pid, irqs[0]["tid"], "Next", {})
        W.drain()
    res.witnesses += 1
    got = sorted((((m.get("inputs") or {}).get("options") or {}).get("$index"), ((m.get("inputs") or {}).get("options") or {}).get("$value"))
                 for m in W.messages if m["type"] == "act" and m["state"] == "Created" and m["key"] == "nr")
    want = sorted([(0, "x"), (1, "y"), (2, "z")] * 2)
    if got != want:
        r.viol("nested:index-value:%s>%s" % (outer, inner), "inner generated acts saw (index, value) %s, expected %s" % (got, want), dict(got=[list(x) for x in got]))
    if not r.terminal_events():
        r.viol("nested:not-finished:%s>%s" % (outer, inner), "the process did not finish after all generated interrupts were completed")
    if len(res.samples) < 2:
        res.samples.append(dict(nested=(outer, inner), inner_groups=got))


def confirm_nested(v, outer, inner):
    from . import replay
    model = nested_model(outer, inner)
    out = replay.run({"config": {"keep_processes": True}, "threads": 0, "models": [model],
                      "steps": [{"op": "start", "mid": "m", "inputs": {}}, {"op": "answer_all", "max": 20, "options": {}}], "known_nids": sorted(replay.node_ids(model))})
    if "error" in out:
        return None, out
    obs = replay.normalise(out)
    got = sorted((((m.get("inputs") or {}).get("options") or {}).get("$index"), ((m.get("inputs") or {}).get("options") or {}).get("$value"))
                 for m in obs["messages"] if m["type"] == "act" and m["state"] == "Created" and m["key"] == "nr")
    want = sorted([(0, "x"), (1, "y"), (2, "z")] * 2)
    fin = [e for e in obs["events"] if e[0] in ("complete", "error")]
    if v.role.startswith("nested:index-value"):
        return got != want, dict(got=got)
    return (not fin), dict(events=obs["events"][:3])


def nested(I, prop, outer, inner, policy, max_paths):
    res = explore(I, "nested:%s>%s:%s" % (outer, inner, policy), lambda I, res: run_nested(I, res, prop, outer, inner, policy), max_paths=max_paths)
    seen = {}
    for v in res.violations:
        if v.role not in seen:
            seen[v.role] = confirm_nested(v, outer, inner)
        v.confirmed, v.replay = seen[v.role]
    return res
