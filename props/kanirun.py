"""Kani (CBMC) kernels of /verif/kani: bit-precise decisions on the compiled code of container-free functions."""
import os
import re
import shutil
import subprocess
import time

from mirsym.harness import ScenarioResult, Violation

VERIF = os.path.dirname(os.path.dirname(os.path.abspath(__file__)))
REPO = os.environ.get("VERIF_REPO", "/repo")
CACHE = os.environ.get("VERIF_CACHE", os.path.join(VERIF, ".cache"))


def crate_dir():
    src = os.path.join(VERIF, "kani")
    if REPO == "/repo":
        return src
    dst = os.path.join(CACHE, "kani-src")
    shutil.rmtree(dst, ignore_errors=True)
    shutil.copytree(src, dst, ignore=shutil.ignore_patterns("target"))
    t = open(os.path.join(dst, "Cargo.toml")).read().replace('"/repo/', '"%s/' % REPO)
    open(os.path.join(dst, "Cargo.toml"), "w").write(t)
    return dst


def run(prop, harnesses, timeout=1500):
    """Returns one ScenarioResult per harness.  A failed harness is a violation found on the compiled real function itself."""
    env = dict(os.environ, CARGO_NET_OFFLINE="true")
    cwd = crate_dir()
    out = []
    for h in harnesses:
        res = ScenarioResult("kani:" + h)
        t = time.time()
        try:
            r = subprocess.run(["cargo", "kani", "--target-dir", os.path.join(CACHE, "target-kani"), "--output-format", "terse", "--harness", "proofs::" + h],
                               cwd=cwd, env=env, stdout=subprocess.PIPE, stderr=subprocess.STDOUT, timeout=timeout)
            txt = r.stdout.decode("utf-8", "replace")
        except subprocess.TimeoutExpired:
            res.inconclusive = "kani timeout after %ds" % timeout
            out.append(res)
            continue
        res.extra["kani_seconds"] = round(time.time() - t, 1)
        m = re.search(r"VERIFICATION:- (\w+)", txt)
        verdict = m.group(1) if m else None
        cov = re.search(r"(\d+) of (\d+) cover properties satisfied", txt)
        unwind_fail = "unwinding assertion" in txt and "FAILURE" in txt
        if verdict == "SUCCESSFUL":
            res.paths = 1
            res.obligations = 1
            res.witnesses = 1
            if cov and cov.group(1) != cov.group(2):
                res.fault = "kani harness %s: only %s of %s cover properties satisfied (vacuity)" % (h, cov.group(1), cov.group(2))
            res.samples.append(dict(kani_harness=h, verdict="SUCCESSFUL", seconds=res.extra["kani_seconds"], covers=cov.group(0) if cov else None))
        elif verdict == "FAILED" and not unwind_fail and "Status: ERROR" not in txt:
            failed = re.findall(r"Failed Checks: (.*)", txt)
            res.paths = 1
            res.witnesses = 1
            v = Violation(prop, "kani:%s" % h, "Kani harness %s fails on the compiled code: %s" % (h, "; ".join(failed)[:400]), "kani:" + h, dict(harness=h, failed_checks=failed[:10]), {}, None)
            v.confirmed = True  # the harness executes the real compiled function: there is no model between the solver and the code
            v.replay = dict(rerun="cd /verif/kani && cargo kani --harness proofs::%s -Z concrete-playback --concrete-playback=print" % h)
            res.violations.append(v)
        else:
            res.fault = "kani harness %s inconclusive: verdict=%s unwinding_failure=%s tail=%s" % (h, verdict, unwind_fail, txt[-400:])
        out.append(res)
    return out
