import argparse
import importlib
import os
import sys
import threading


def main():
    ap = argparse.ArgumentParser()
    ap.add_argument("prop")
    ap.add_argument("--tier", default=os.environ.get("VERIF_TIER", "quick"))
    ap.add_argument("--replay", default=None)
    a = ap.parse_args()
    seed = int(os.environ.get("VERIF_SEED", "0") or 0)
    mod = importlib.import_module("props." + a.prop)
    rc = mod.main(a.tier, seed)
    sys.stdout.flush()
    os._exit(rc)


if __name__ == "__main__":
    t = threading.Thread(target=main)
    t.start()
    t.join()
