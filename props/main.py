import argparse
import importlib
import os
import sys
import threading


def replay_file(prop, path):
    """Re-run the concrete scenario recorded in a replay file on the real engine (rebuilt from /repo's current tree) and show what a client observes."""
    import json
    from props import replay
    err = replay.build()
    if err:
        print("replay binary does not build:", err[-800:])
        return 2
    d = json.load(open(path))
    print("property=%s role=%s" % (d.get("property"), d.get("role")))

    def find(x):
        if isinstance(x, dict):
            if "steps" in x and "models" in x:
                return x
            for v in x.values():
                r = find(v)
                if r is not None:
                    return r
        if isinstance(x, list):
            for v in x:
                r = find(v)
                if r is not None:
                    return r
        return None

    for inst in d.get("instances", []):
        print("recorded:", inst.get("desc"))
        print("decisions:", json.dumps(inst.get("decisions"), default=str)[:1500])
        sc = find(inst.get("replay"))
        if sc is None:
            print("no concrete engine scenario is attached to this counterexample (decided on the MIR only, or a Kani harness: see `replay.rerun`):", json.dumps(inst.get("replay"), default=str)[:600])
            continue
        out = replay.run(sc)
        if "error" in out:
            print("replay failed:", out["error"])
            return 2
        print("scenario steps:", json.dumps(sc.get("steps"))[:1500])
        print("results:", json.dumps(out.get("results"))[:1500])
        for p_ in out.get("procs", []):
            print("process %s state=%s tasks=%s" % (p_["pid"], p_["state"], [(t["nid"], t["state"]) for t in p_["tasks"]]))
        print("events:", [(e["kind"], e["pid"], e["state"]) for e in out.get("events", [])])
        print("messages:", [(m["type"], m["nid"], m["state"]) for m in out.get("messages", [])][:40])
        return 0
    return 0


def main():
    ap = argparse.ArgumentParser()
    ap.add_argument("prop")
    ap.add_argument("--tier", default=os.environ.get("VERIF_TIER", "quick"))
    ap.add_argument("--replay", default=None)
    a = ap.parse_args()
    seed = int(os.environ.get("VERIF_SEED", "0") or 0)
    if a.replay:
        os._exit(replay_file(a.prop, a.replay))
    mod = importlib.import_module("props." + a.prop)
    rc = mod.main(a.tier, seed)
    sys.stdout.flush()
    os._exit(rc)


def _guarded():
    # whatever goes wrong in the machinery itself (the tree does not compile, an import fails, ...) is exit 2, never a silent 0
    try:
        main()
    except SystemExit as e:
        sys.stdout.flush()
        code = e.code if isinstance(e.code, int) else 2
        os._exit(code if code else 2 if e.code not in (0, None) else 0)
    except BaseException:
        import traceback
        traceback.print_exc()
        print("MACHINERY-FAULT the check itself failed (see the traceback above)")
        sys.stdout.flush()
        os._exit(2)


if __name__ == "__main__":
    t = threading.Thread(target=_guarded)
    t.start()
    t.join()
    os._exit(2)   # main() always leaves through os._exit: getting here means it did not finish
