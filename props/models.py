"""C20: tree building, deployment (the YAML/JSON text round trip is not decidable here: see DESIGN.md)."""
import itertools
import z3

from mirsym.values import *
from mirsym.world import World
from mirsym.harness import Violation, explore
from mirsym.intr_core import struct_eq
from . import scen
from .flow import kids


class MCtx:
    def __init__(self, I, res, prop, name):
        self.I = I
        self.res = res
        self.prop = prop
        self.name = name
        self.sym = {}

    def viol(self, role, desc):
        I = self.I
        self.res.violations.append(Violation(self.prop, role, desc, self.name, dict(decisions=list(I.path.taken)), {}, None))


def declared(model):
    """[(kind, node, parent id, output kind, on)] in declaration order."""
    out = []

    def walk(n, kind, parent):
        for k2, c, in_hook in kids(n):
            if k2 == "act" and c in (n.get("setup") or []):
                continue
            out.append((k2, c, n.get("id")))
            walk(c, k2, n)

    walk(model, "workflow", None)
    return out


def tree_path(I, res, prop, scen_name):
    cx = MCtx(I, res, prop, "tree:" + scen_name)
    W = World(I)
    model, _ = scen.catalogue()[scen_name]
    import copy
    model = copy.deepcopy(model)
    nodes = declared(model)
    # optionally make two declared nodes collide
    pairs = [(a, b) for a, b in itertools.combinations(range(len(nodes)), 2)][:6]
    sel = I.path.choose(len(pairs) + 1, "collide")
    collided = None
    if sel > 0:
        a, b = pairs[sel - 1]
        nodes[b][1]["id"] = nodes[a][1]["id"]
        collided = (nodes[a][1]["id"],)
    m = W.model(model)
    tree = I.call_raw("scheduler::tree::node_tree::NodeTree::new", [], None)
    r = I.call_raw("scheduler::tree::node_tree::NodeTree::load", [Ptr([tree], 0), Ptr([m], 0)], None)
    res.witnesses += 1
    if collided:
        if r.d != 1:
            cx.viol("tree:duplicate-id-accepted", "two nodes share the id %s but the tree was built" % collided[0])
        return
    if r.d != 0:
        cx.viol("tree:load-failed", "a model with distinct ids was rejected: %s" % (W.py(r.f[0]),))
        return
    node_map = W.field(tree, "NodeTree", "node_map").c[0].f[0]
    ids = [k for k in node_map.keys()]
    want = [model["id"]] + [n["id"] for _, n, _ in nodes]
    if sorted(ids) != sorted(want):
        cx.viol("tree:node-set", "the tree holds nodes %s, the model declares %s" % (sorted(ids), sorted(want)))
        return

    def node(nid):
        return node_map.d[nid].v.c[0]

    def children(nid, typ="Normal", on=None):
        outs = W.field(node(nid), "Node", "children").c[0].f[0].a
        r = []
        for o in outs:
            t = W.field(o, "NodeOutput", "typ").vn
            onv = W.py(W.field(o, "NodeOutput", "on"))
            if t == typ and onv == on:
                r.append(W.field(W.field(o, "NodeOutput", "node").c[0], "Node", "id"))
        return r

    def next_of(nid):
        w = W.field(node(nid), "Node", "next").c[0].f[0]
        return W.field(w.t.c[0], "Node", "id") if (isinstance(w, WeakV) and w.t is not None) else None

    def check_chain(parent_id, seq, typ="Normal", on=None, what="steps"):
        """seq (declared order) is rooted under parent: first is a child, the others follow by next links."""
        if not seq:
            return
        ch = children(parent_id, typ, on)
        if seq[0]["id"] not in ch:
            cx.viol("tree:%s:first-not-child" % what, "%s is not a child of %s (children %s)" % (seq[0]["id"], parent_id, ch))
        for a, b in zip(seq, seq[1:]):
            if a.get("next"):
                continue
            if next_of(a["id"]) != b["id"]:
                cx.viol("tree:%s:next-link" % what, "next of %s is %s, declared successor %s" % (a["id"], next_of(a["id"]), b["id"]))
        last = seq[-1]
        if last.get("next") and next_of(last["id"]) != last["next"]:
            # `next` names an earlier step (a loop back); it is honoured on the last step of a sequence
            cx.viol("tree:%s:explicit-next-link" % what, "%s declares next: %s but its next link is %s" % (last["id"], last["next"], next_of(last["id"])))
        if not last.get("next") and next_of(last["id"]) is not None and what != "acts":
            cx.viol("tree:%s:dangling-next" % what, "the last of %s has next %s" % (what, next_of(last["id"])))

    def walk(n, kind):
        if kind in ("workflow", "branch"):
            check_chain(n["id"], n.get("steps") or [], what="steps")
        if kind == "step":
            bs = n.get("branches") or []
            ch = children(n["id"])
            for b in bs:
                if b["id"] not in ch:
                    cx.viol("tree:branch-not-child", "branch %s is not a child of step %s" % (b["id"], n["id"]))
                if next_of(b["id"]) is not None:
                    cx.viol("tree:branch:dangling-next", "branch %s has a next link (%s): branches of a step run side by side" % (b["id"], next_of(b["id"])))
            check_chain(n["id"], n.get("acts") or [], what="acts")
        if kind in ("step", "act"):
            for c in n.get("catches") or []:
                check_chain(n["id"], c.get("steps") or [], "Catch", c.get("on"), "catch-steps")
            for t in n.get("timeout") or []:
                check_chain(n["id"], t.get("steps") or [], "Timeout", t.get("on"), "timeout-steps")
        lv = W.field(node(n["id"]), "Node", "level")
        for k2, c, _ in kids(n):
            if k2 == "act" and c in (n.get("setup") or []):
                continue
            if W.field(node(c["id"]), "Node", "level") != lv + 1:
                cx.viol("tree:level", "%s is declared inside %s but its level is %s (parent level %s)" % (c["id"], n["id"], W.field(node(c["id"]), "Node", "level"), lv))
            walk(c, k2)

    walk(model, "workflow")
    if len(res.samples) < 2:
        res.samples.append(dict(check="tree", scenario=scen_name, nodes=sorted(ids)))


def tree(I, prop, scen_name):
    return explore(I, "tree:" + scen_name, lambda I, res: tree_path(I, res, prop, scen_name), max_paths=50)


def deploy_path(I, res, prop):
    cx = MCtx(I, res, prop, "deploy")
    W = World(I).boot()
    n_on = I.path.choose(3, "on-entries")
    on = [{"id": "ev%d" % i, "uses": "acts.event.manual"} for i in range(n_on)]
    model = scen.wf("dm", [scen.step("s1", [scen.irq("a1")])], on=on, name="demo", desc="a description", tag="t1", ver=7, env={"e": 1})
    dup = I.path.choose(2, "dup-ids") == 1
    if dup:
        model["steps"].append(scen.step("s1", [scen.irq("a2")]))
    ex = I.call_raw("export::executor::model_executor::ModelExecutor::new", [Ptr([W.rt], 0)], None)
    times = 1 + I.path.choose(3, "deploys")
    rs = []
    for i in range(times):
        # every revision has its own name and one more act: the row must describe the LAST one
        model = dict(model, name="demo-r%d" % (i + 1))
        if i > 0 and not dup:
            import copy
            model = copy.deepcopy(model)
            model["steps"][0]["acts"].append(scen.irq("r%d" % i))
        m = W.model(model)
        rs.append(I.call_raw("export::executor::model_executor::ModelExecutor::deploy", [Ptr([ex], 0), Ptr([m], 0)], None))
    res.witnesses += 1
    models = I.call_raw("store::store::Store::models", [Ptr(W.store.c, 0)], None)
    got = I.call_raw("<dyn store::DbCollection<Item = store::data::model::Model> as store::DbCollection>::find", [Ptr(models.c, 0), "dm"], None)
    if dup:
        if any(r.d == 0 for r in rs):
            cx.viol("deploy:duplicate-ids-accepted", "a model with duplicate node ids was deployed")
        if got.d == 0:
            cx.viol("deploy:duplicate-ids-stored", "a rejected model was stored")
        return
    if any(r.d != 0 for r in rs):
        cx.viol("deploy:rejected", "a valid model was rejected: %s" % [W.py(r.f[0]) for r in rs if r.d != 0][:1])
        return
    if got.d != 0:
        cx.viol("deploy:not-stored", "the deployed model is not in the store")
        return
    row = dict(zip([f[0] for f in I.p.src.struct_fields("store::data::model::Model")], got.f[0].f))
    for col, want in (("id", "dm"), ("name", "demo-r%d" % times)):
        if W.py(row[col]) != want:
            cx.viol("deploy:row-%s-not-of-last-revision" % col, "after %d deploys the stored row has %s = %r, the last deployed model says %r" % (times, col, W.py(row[col]), want))
    if row["ver"] != times:
        cx.viol("deploy:version=%s/%d" % (row["ver"], times), "after %d deploys the stored version is %s" % (times, row["ver"]))
    # stored text parses back to the given model (structural serde model)
    back = I.call_raw("model::workflow::Workflow::from_yml", [row["data"]], None)
    if back.d != 0 or struct_eq(I, back.f[0], W.model(model)) is not True:
        cx.viol("deploy:stored-model-differs", "the stored model text does not parse back to the deployed model")
    evs = I.call_raw("store::store::Store::events", [Ptr(W.store.c, 0)], None)
    q = I.call_raw("store::query::Query::new", [], None)
    page = I.call_raw("<dyn store::DbCollection<Item = store::data::event::Event> as store::DbCollection>::query", [Ptr(evs.c, 0), Ptr([q], 0)], None)
    pf = {f[0]: i for i, f in enumerate(I.p.src.struct_fields("PageData"))}
    n = len(page.f[0].f[pf["rows"]].a)
    if n != n_on:
        cx.viol("deploy:events=%d/%d" % (n, n_on), "%d start events are registered for %d `on` entries" % (n, n_on))
    # starting an unknown model fails
    pe = I.call_raw("export::executor::process_executor::ProcessExecutor::new", [Ptr([W.rt], 0)], None)
    r = I.call_raw("export::executor::process_executor::ProcessExecutor::start", [Ptr([pe], 0), "no-such-model", Ptr([W.vars_of({})], 0)], None)
    if r.d == 0:
        cx.viol("start:unknown-model-accepted", "starting an unknown model id succeeded")
    # removing the model removes exactly its events
    other = scen.wf("om", [scen.step("s1", [scen.irq("a1")])], on=[{"id": "oev", "uses": "acts.event.manual"}])
    I.call_raw("export::executor::model_executor::ModelExecutor::deploy", [Ptr([ex], 0), Ptr([W.model(other)], 0)], None)
    I.call_raw("export::executor::model_executor::ModelExecutor::rm", [Ptr([ex], 0), "dm"], None)
    page = I.call_raw("<dyn store::DbCollection<Item = store::data::event::Event> as store::DbCollection>::query", [Ptr(evs.c, 0), Ptr([q], 0)], None)
    left = [W.py(W.field(e, "store::data::event::Event", "mid")) for e in page.f[0].f[pf["rows"]].a]
    if left != ["om"]:
        cx.viol("rm-model:events-left=%s" % left, "after removing model dm the registered events belong to %s (expected only om's)" % left)
    if len(res.samples) < 2:
        res.samples.append(dict(check="deploy", deploys=times, on_entries=n_on))


RICH = {
    "id": "rich", "name": "rich model", "desc": "every field set", "tag": "t-wf", "ver": 7,
    "env": {"e": 1}, "inputs": {"x": 1}, "outputs": {"o": 2},
    "setup": [{"uses": "acts.core.msg", "key": "wf-setup", "on": "completed"}],
    "on": [{"id": "ev1", "uses": "acts.event.manual"}],
    "steps": [
        {"id": "s1", "name": "step one", "desc": "d-s1", "tag": "t-s1", "inputs": {"si": 1}, "outputs": {"so": 2}, "if": "x > 0",
         "setup": [{"uses": "acts.core.msg", "key": "s-setup", "on": "created"}],
         "catches": [{"on": "e1", "steps": [{"id": "cs1", "name": "catch step"}]}],
         "timeout": [{"on": "2h", "steps": [{"id": "ts1"}]}],
         "acts": [{"id": "a1", "name": "act one", "desc": "d-a1", "uses": "acts.core.irq", "params": {"p": [1, "two"]}, "options": {"opt": True}, "if": "x > 1", "key": "k-a1", "tag": "t-a1",
                   "inputs": {"ai": 1}, "outputs": {"ao": None}, "setup": [{"uses": "acts.core.msg", "key": "a-setup", "on": "updated"}],
                   "catches": [{"steps": [{"id": "cs2"}]}], "timeout": [{"on": "30s", "steps": [{"id": "ts2"}]}]}]},
        {"id": "s2", "next": "s1",
         "branches": [{"id": "b1", "name": "branch one", "desc": "d-b1", "tag": "t-b1", "inputs": {"bi": 1}, "outputs": {"bo": 2}, "if": "x > 2", "steps": [{"id": "bs1"}]},
                      {"id": "b2", "needs": ["b1"], "steps": [{"id": "bs2"}]},
                      {"id": "b3", "else": True, "steps": [{"id": "bs3"}]}]},
    ],
}


def roundtrip_path(I, res, prop):
    """A model in which every field of Workflow / Step / Branch / Act / Catch / Timeout carries a non-default value goes through the real to_yml / to_json and from_yml / from_json
    (serde's derive is modelled structurally, honouring the field attributes read from the source: default, skip*, rename, alias): nothing may be lost on the way."""
    cx = MCtx(I, res, prop, "roundtrip")
    W = World(I).boot()
    m = W.model(RICH)
    res.witnesses += 1
    for fmt in ("yml", "json"):
        text = I.call_raw("model::workflow::Workflow::to_" + fmt, [Ptr([m], 0)], None)
        if text.d != 0:
            cx.viol("roundtrip:%s:write-failed" % fmt, "to_%s failed on a valid model" % fmt)
            continue
        back = I.call_raw("model::workflow::Workflow::from_" + fmt, [text.f[0]], None)
        if back.d != 0:
            cx.viol("roundtrip:%s:read-failed" % fmt, "the text written by to_%s does not parse" % fmt)
            continue
        if struct_eq(I, back.f[0], m) is not True:
            lost = [fn for (fn, ft, fa), a, b in zip(I.p.src.struct_fields("model::workflow::Workflow"), back.f[0].f, m.f) if struct_eq(I, a, b) is not True]
            cx.viol("roundtrip:%s:differs:%s" % (fmt, ",".join(lost)), "to_%s then from_%s does not give the model back (top-level fields that differ: %s)" % (fmt, fmt, lost))
    if len(res.samples) < 2:
        res.samples.append(dict(check="roundtrip", model="every field of every model struct non-default", formats=["yml", "json"]))


def roundtrip(I, prop):
    return explore(I, "roundtrip", lambda I, res: roundtrip_path(I, res, prop), max_paths=4)


def deploy(I, prop):
    return explore(I, "deploy", lambda I, res: deploy_path(I, res, prop), max_paths=60)


def timeout_limit_path(I, res, prop):
    """TimeoutLimit: as_secs for a symbolic value; Display then parse for boundary values."""
    cx = MCtx(I, res, prop, "timeout-limit")
    W = World(I)
    units = I.p.src.enum_def("TimeoutUnit")
    u = I.path.choose(len(units), "unit")
    v = z3.Int("value")
    cx.sym["value"] = v
    I.assume(z3.And(v >= 0, v <= 10**9))
    lim = Agg("model::act::timeout::TimeoutLimit", [v, Enum("TimeoutUnit", units[u][1], [], units[u][0])])
    r = I.call_raw("model::act::timeout::TimeoutLimit::as_secs", [Ptr([lim], 0)], None)
    factor = {"Second": 1, "Minute": 60, "Hour": 3600, "Day": 86400}[units[u][0]]
    res.witnesses += 1
    res.obligations += 1
    if I.check_sat(z3.Not(r == v * factor)):
        cx.viol("timeout-limit:as_secs:%s" % units[u][0], "as_secs of value %s is not value * %d" % (units[u][0], factor))
    for val in (0, 1, 59, 60, 1000000):
        lim2 = Agg("model::act::timeout::TimeoutLimit", [val, Enum("TimeoutUnit", units[u][1], [], units[u][0])])
        from mirsym.intr_core import display
        txt = display(I, lim2)
        back = I.call_raw("model::act::timeout::TimeoutLimit::parse", [txt], None)
        if back.d != 0 or struct_eq(I, back.f[0], lim2) is not True:
            cx.viol("timeout-limit:display-parse", "parse(display(%d %s)) = %r" % (val, units[u][0], back))


def timeout_limit(I, prop):
    return explore(I, "timeout-limit", lambda I, res: timeout_limit_path(I, res, prop), max_paths=20)
