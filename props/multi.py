"""C12 (reload transparency) and C13 (isolation): self-composition of runs inside one path.

Run A is the reference (one process alone, never evicted).  Run B is the same client script with
eviction + reload at chosen quiescent points (C12) or with a second process interleaved and a small cache
(C13).  The client-visible summary of the process must be the same."""
import z3

from mirsym.values import *
from mirsym.world import World, STATE_NAMES, TERMINAL
from mirsym.harness import Violation, explore
from . import scen
from .flow import kids


def node_ids(model):
    out = set()

    def walk(n):
        if n.get("id"):
            out.add(n["id"])
        for k2, c, _ in kids(n):
            walk(c)

    walk(model)
    return out


class Proc:
    def __init__(self, W, handle, model, name):
        self.W = W
        self.handle = handle
        self.model = model
        self.name = name
        self.pid = W.field(handle.c[0], "Process", "id")
        self.known = node_ids(model)

    def live(self):
        """The process object the engine would use now (cache, else the handle we hold)."""
        p = self.W.proc(self.pid)
        if p is not None:
            self.handle = p
        return self.handle

    def tasks(self):
        """Task list as a client sees it: the rows of the store (the live object may be evicted at any time)."""
        W = self.W
        I = W.I
        from mirsym.intr_serde import json_to_py
        coll = I.call_raw("store::store::Store::tasks", [Ptr(W.store.c, 0)], None)
        q = I.call_raw("store::query::Query::new", [], None)
        r = I.call_raw("<dyn store::DbCollection<Item = store::data::task::Task> as store::DbCollection>::query", [Ptr(coll.c, 0), Ptr([q], 0)], None)
        pf = {f[0]: i for i, f in enumerate(I.p.src.struct_fields("PageData"))}
        names = [f[0] for f in I.p.src.struct_fields("store::data::task::Task")]
        smap = {"none": "None", "ready": "Ready", "pending": "Pending", "running": "Running", "interrupted": "Interrupt", "completed": "Completed", "submitted": "Submitted",
                "backed": "Backed", "cancelled": "Cancelled", "error": "Error", "aborted": "Aborted", "skipped": "Skipped", "removed": "Removed"}
        out = []
        for row in r.f[0].f[pf["rows"]].a:
            d = dict(zip(names, row.f))
            if d["pid"] != self.pid:
                continue
            nd = json_to_py(d["node_data"].v) if isinstance(d["node_data"], Ser) else {}
            content = nd.get("content") or {}
            kind = list(content.keys())[0] if isinstance(content, dict) and content else str(W.py(d["kind"])).capitalize()
            body = content.get(kind, {}) if isinstance(content, dict) else {}
            data = json_to_py(d["data"].v) if isinstance(d["data"], Ser) else {}
            out.append(dict(pid=self.pid, tid=d["tid"], nid=nd.get("id"), kind=kind, state=smap.get(W.py(d["state"]), W.py(d["state"])), prev=W.py(d["prev"]),
                            data=data, uses=(body.get("uses") or "") if kind == "Act" else "", timestamp=d["timestamp"], start_time=d["start_time"], end_time=d["end_time"],
                            level=nd.get("level"), err=_err_of(W, d["err"]), hooks=[]))
        out.sort(key=lambda t: t["timestamp"])
        return out

    def done(self):
        return [e for e in self.W.events if e[0] in ("complete", "error") and e[1]["pid"] == self.pid]


def _err_of(W, e):
    from mirsym.intr_serde import json_to_py
    if isinstance(e, Enum) and e.ty == "Option":
        if e.d != 1:
            return None
        e = e.f[0]
    if isinstance(e, Ser):
        return json_to_py(e.v)
    return W.py(e)


def summary(W, p):
    """What a client can tell about process p: task outcomes by node, message multiset, terminal event."""
    def nid_of(n):
        return n if n in p.known else "<dyn>"

    tasks = sorted((nid_of(t["nid"]), t["kind"], t["state"]) for t in p.tasks())
    msgs = sorted((m["type"], nid_of(m["nid"]), m["state"], m["key"] if m["nid"] in p.known else "", repr((m.get("inputs") or {}).get("params")),
                   repr(sorted((k, repr(v)) for k, v in (m.get("outputs") or {}).items())), _inputs_repr(m.get("inputs"))) for m in W.messages if m["pid"] == p.pid)
    evs = [(e[0], e[1]["state"], repr(sorted((e[1].get("outputs") or {}).items())), _inputs_repr(e[1].get("inputs"))) for e in W.events if e[1]["pid"] == p.pid]
    return dict(tasks=tasks, messages=msgs, events=evs)


def _inputs_repr(inputs):
    """Inputs of a message / event as the client sees them, without what legitimately differs between two runs (ids, generator options, link keys)."""
    if not isinstance(inputs, dict):
        return repr(inputs)
    out = []
    for k, v in inputs.items():
        if k in ("pid", "params", "options", "error") or str(k).startswith("$"):
            continue
        if k == "step" and isinstance(v, dict):
            v = {kk: vv for kk, vv in v.items() if kk != "task_id"}
        out.append((k, repr(v)))
    return repr(sorted(out))


class Driver:
    def __init__(self, I, res, prop, name):
        self.I = I
        self.res = res
        self.prop = prop
        self.name = name
        self.sym = {}
        self.log = []
        self.phase = "ref"

    def inputs_for(self, spec):
        out = {}
        for k, v in spec.items():
            if v == "$bool":
                if k not in self.sym:
                    self.sym[k] = z3.Bool(k)
                out[k] = self.sym[k]
            elif v == "$int":
                if k not in self.sym:
                    self.sym[k] = z3.Int(k)
                    self.I.assume(z3.And(self.sym[k] >= -3, self.sym[k] <= 8))
                out[k] = self.sym[k]
            else:
                out[k] = v
        return out

    def world(self, policy="fifo", **kw):
        kw.setdefault("keep_processes", True)  # finished processes stay inspectable (retention is C17's subject)
        W = World(self.I, policy=policy, **kw).boot()
        return W

    def start(self, W, scen_name, tag, pid=None):
        model, inputs = scen.catalogue()[scen_name]
        opts = self.inputs_for(inputs)
        if pid:
            opts = dict(opts)
            opts["pid"] = pid
        h = W.start(model, opts)
        if isinstance(h, Enum):  # start failed
            return h
        return Proc(W, h, model, tag)

    def viol(self, role, desc, detail=None):
        I = self.I
        m = I.model()
        model = {k: str(m.eval(v, model_completion=True)) for k, v in self.sym.items()} if m is not None else {}
        ev = list(getattr(I.world, "evictions", []) or []) if I.world is not None else []
        self.res.violations.append(Violation(self.prop, role, desc, self.name, dict(decisions=list(I.path.taken), log=self.log, evictions=ev), model, detail))

    def evict(self, W, p):
        """Drop the process from the cache (what moka does under capacity pressure / Cache::uncache)."""
        procs = W.field(W.cache.c[0], "Cache", "procs")
        procs.d.pop(p.pid, None)
        self.log.append(("evict", p.name, None, None, self.phase))

    def answer(self, W, p, t):
        r = W.action(p.pid, t["tid"], "Next", {})
        p.live()  # a reload replaces the process object: follow it before it may be removed again
        self.log.append(("answer", p.name, t["nid"] if t["nid"] in p.known else "<dyn>", None if r is None else r.d == 0, self.phase))
        W.drain()
        return r

    def actions_for(self, p, t):
        """Client actions for an open act: the scenario's pre-actions, then complete."""
        from .flow import kids

        def find(n):
            if n.get("id") == t["nid"]:
                return n
            for k2, c, _ in kids(n):
                r = find(c)
                if r:
                    return r
            return None

        node = find(p.model) or {}
        done = getattr(p, "_pre_done", set())
        acts = []
        if t["tid"] not in done:
            acts += [(k, o) for k, o in (node.get("_pre_actions") or [])]
        ans = dict((node.get("_answer") or {}))
        for k in (node.get("outputs") or {}):
            ans.setdefault(k, 1)
        if node.get("_close_with"):
            # scenario hint: the client ends this act with another action (e.g. an error that a catch rule takes)
            acts.append((node["_close_with"][0], dict(node["_close_with"][1])))
        else:
            acts.append(("Next", ans))
        return acts

    def do(self, W, p, t, kind, opts):
        if kind == "Tick":
            # a timer tick as a client-visible event of the history (timeout rules are evaluated against the task's start time)
            W.tick()
            W.drain()
            p.live()
            done = getattr(p, "_pre_done", set())
            done.add(t["tid"])
            p._pre_done = done
            self.log.append(("action:Tick", p.name, t["nid"], True, self.phase, {}))
            return ok(UNIT)
        r = W.action(p.pid, t["tid"], kind, opts)
        p.live()
        done = getattr(p, "_pre_done", set())
        done.add(t["tid"])
        p._pre_done = done
        self.log.append(("answer" if kind == "Next" else "action:" + kind, p.name, t["nid"] if t["nid"] in p.known else "<dyn>", None if r is None else r.d == 0, self.phase, opts))
        W.drain()
        return r

    def open_irqs(self, p):
        return [t for t in p.tasks() if t["kind"] == "Act" and t["state"] == "Interrupt"]

    def compare(self, sa, sb, what, cause):
        for k in ("tasks", "messages", "events"):
            if sa[k] != sb[k]:
                a = [x for x in sa[k] if x not in sb[k]]
                b = [x for x in sb[k] if x not in sa[k]]
                self.viol("%s:%s-differ:%s" % (what, k, cause), "%s of the %s run differ from the reference run: only in reference %s, only here %s" % (k, what, a[:4], b[:4]))
                return False
        return True


# --------------------------------------------------------------------------------------------------- C12


def reload_path(I, res, prop, scen_name, max_evictions):
    d = Driver(I, res, prop, "reload:" + scen_name)
    # run A: reference
    I.world = None
    WA = d.world()
    pa = d.start(WA, scen_name, "A")
    WA.drain()
    order = []
    n = 0
    while n < 12:
        irqs = d.open_irqs(pa)
        if not irqs or pa.done():
            break
        n += 1
        t = irqs[0]
        order.append(t["nid"] if t["nid"] in pa.known else "<dyn>")
        for kind, opts in d.actions_for(pa, t):
            d.do(WA, pa, t, kind, opts)
    sa = summary(WA, pa)
    # run B: same script, evict + reload at chosen quiescent points
    d.phase = "together"
    WB = d.world()
    pb = d.start(WB, scen_name, "B")
    WB.drain()
    evictions = 0
    n = 0
    where = []
    while n < 12:
        irqs = d.open_irqs(pb)
        if not irqs or pb.done():
            break
        n += 1
        t = irqs[0]
        r = None
        for kind, opts in d.actions_for(pb, t):
            if evictions < max_evictions and I.path.choose(2, "evict?") == 1:
                d.evict(WB, pb)
                evictions += 1
                where.append(n)
            r = d.do(WB, pb, t, kind, opts)
        if r is None or r.d != 0:
            d.viol("reload:action-rejected-after-reload" if evictions else "action-rejected", "completing %s was rejected%s: %s" % (t["nid"], " after a reload" if evictions else "",
                                                                                                                                  WB.py(r.f[0]) if r is not None else WB.panics[-1:]))
            return
    res.witnesses += 1
    if evictions == 0:
        d.compare(sa, summary(WB, pb), "rerun", "no-eviction")  # determinism of the model itself
    else:
        d.compare(sa, summary(WB, pb), "reload", cause_of(scen_name))
    if len(res.samples) < 2:
        res.samples.append(dict(scenario=scen_name, evicted_before_answer=where, answers=order))


def cause_of(scen_name):
    model, _ = scen.catalogue()[scen_name]
    txt = repr(model)
    tags = []
    if "acts.core.block" in txt or "acts.core.parallel" in txt or "acts.core.sequence" in txt:
        tags.append("generated-acts")
    if "'env'" in txt or "$env" in txt:
        tags.append("env")
    if "catches" in txt:
        tags.append("catch")
    if "'timeout'" in txt:
        tags.append("timeout")
    return "+".join(tags) or "plain"


def reload(I, prop, scen_name, max_evictions, max_paths):
    return explore(I, "reload:" + scen_name, lambda I, res: reload_path(I, res, prop, scen_name, max_evictions), max_paths=max_paths)


# --------------------------------------------------------------------------------------------------- C13


def isolation_path(I, res, prop, s1, s2, cap, policy, keep=True):
    d = Driver(I, res, prop, "isolation:%s|%s:cap=%s" % (s1, s2, cap))
    # reference: each process alone
    refs = []
    for sname, tag in ((s1, "A"), (s2, "B")):
        W0 = d.world(keep_processes=keep)
        p0 = d.start(W0, sname, tag)
        W0.drain()
        n = 0
        while n < 12:
            irqs = d.open_irqs(p0)
            if not irqs or p0.done():
                break
            n += 1
            d.answer(W0, p0, irqs[0])
        refs.append(summary(W0, p0))
    # together, interleaved, small cache
    d.phase = "together"
    W = d.world(policy=policy, cache_cap=cap, keep_processes=keep)
    p1 = d.start(W, s1, "A", pid="pA")
    p2 = d.start(W, s2, "B", pid="pB")
    W.drain()
    # a second start with a live pid is refused
    if keep:
        dup = d.start(W, s1, "dup", pid="pA")
        if not isinstance(dup, Enum) or dup.d != 1:
            d.viol("duplicate-pid-accepted", "a second start with a live process id was accepted")
            return
        W.drain()
    procs = [p1, p2]
    n = 0
    while n < 24:
        cands = [(p, t) for p in procs for t in d.open_irqs(p)[:1] if not p.done()]
        if not cands:
            break
        n += 1
        # capacity pressure: with more live processes than the cache holds, any of them may have been evicted
        p, t = cands[I.path.choose(len(cands), "who")] if len(cands) > 1 else cands[0]
        r = d.answer(W, p, t)
        if r is None or r.d != 0:
            d.viol("isolation:action-rejected:%s" % cause_of(s1 if p is p1 else s2), "completing %s of process %s was rejected: %s" % (t["nid"], p.name, W.py(r.f[0]) if r is not None else W.panics[-1:]))
            return
    res.witnesses += 1
    for p, ref, sname in ((p1, refs[0], s1), (p2, refs[1], s2)):
        d.compare(ref, summary(W, p), "together", cause_of(sname) + (":evicted" if p.pid in W.evictions else ""))
    if not keep:
        # default retention under cache pressure: whatever happened to the cache entry, a finished process leaves no rows
        from .subflow import _rows
        for p in (p1, p2):
            if p.done():
                np_ = len([x for x in _rows(I, W, "procs") if x["id"] == p.pid])
                nt = len([x for x in _rows(I, W, "tasks") if x["pid"] == p.pid])
                if np_ or nt:
                    d.viol("rows-left:finished-process-under-cache-pressure%s" % (":evicted" if p.pid in W.evictions else ""),
                           "process %s delivered its terminal event but %d process / %d task rows remain (default configuration, cache capacity %s)" % (p.name, np_, nt, cap))
    # nothing crosses process ids
    for m in W.messages:
        if m["pid"] not in ("pA", "pB"):
            d.viol("foreign-pid-in-message", "a message carries pid %s" % m["pid"])
    if len(res.samples) < 2:
        res.samples.append(dict(pair=(s1, s2), cap=cap, log=d.log[:12]))


def isolation(I, prop, s1, s2, cap, policy, max_paths, keep=True):
    return explore(I, "isolation:%s|%s:cap=%s:%s:keep=%s" % (s1, s2, cap, policy, keep), lambda I, res: isolation_path(I, res, prop, s1, s2, cap, policy, keep), max_paths=max_paths)


# --------------------------------------------------------------------------------------------------- replay


def _real_summary(obs, known, pid_index=0):
    if len(obs["procs"]) <= pid_index:
        return None
    p = obs["procs"][pid_index]
    nid_of = lambda n: n if n in known else "<dyn>"
    tasks = sorted((nid_of(t["nid"]), t["kind"], t["state"]) for t in p["tasks"])
    msgs = sorted((m["type"], nid_of(m["nid"]), m["state"], m["key"] if m["nid"] in known else "", repr((m.get("inputs") or {}).get("params")),
                   repr(sorted((k, repr(v)) for k, v in (m.get("outputs") or {}).items())), _inputs_repr(m.get("inputs"))) for m in obs["messages"] if m["pid"] == p["pid"])
    evs = [(e[0], e[1]["state"], _inputs_repr(e[1].get("inputs"))) for e in obs["events"] if e[1]["pid"] == p["pid"]]
    return dict(tasks=tasks, messages=msgs, events=evs)


def confirm_reload(v, scen_name):
    from . import replay
    model, inputs = scen.catalogue()[scen_name]
    conc = {}
    for k, spec in inputs.items():
        mv = (v.model or {}).get(k)
        conc[k] = (mv == "True") if spec == "$bool" else (int(mv) if spec == "$int" and mv is not None else spec)
    known = node_ids(model)
    logB = [e for e in v.decisions["log"] if e[4] == "together"]

    def build(with_evict):
        steps = [{"op": "start", "mid": model["id"], "inputs": conc}]
        dyn = 0
        for e in logB:
            if e[0] == "evict":
                if with_evict:
                    steps.append({"op": "uncache", "pid_index": 0})
            elif e[0] == "answer" or e[0].startswith("action:"):
                from .replay import snake
                kind = "next" if e[0] == "answer" else snake(e[0].split(":")[1])
                if kind == "tick":
                    steps.append({"op": "tick"})
                    continue
                st = {"op": "action", "kind": kind, "nid": e[2], "occurrence": 0, "options": (e[5] if len(e) > 5 else {})}
                if e[2] == "<dyn>":
                    st = {"op": "answer_all", "max": 1, "options": {}}
                steps.append(st)
        # finish whatever is still open the same way in both runs
        steps.append({"op": "answer_all", "max": 10, "options": {}})
        return {"config": {"keep_processes": True}, "threads": 0, "models": [model], "steps": steps, "known_nids": sorted(known)}

    a = replay.run(build(False))
    b = replay.run(build(True))
    if "error" in a or "error" in b:
        return None, dict(a=a.get("error"), b=b.get("error"))
    sa = _real_summary(replay.normalise(a), known)
    sb = _real_summary(replay.normalise(b), known)
    comp = v.role.split(":")[1].split("-")[0] if ":" in v.role else ""
    if v.role.startswith("reload:action-rejected"):
        rej = [r for r in b["results"] if r.get("op") in ("action", "answer") and not r.get("ok")]
        return bool(rej), dict(rejected=rej[:2])
    differ = [k for k in ("tasks", "messages", "events") if sa[k] != sb[k]]
    return (comp in differ), dict(differ=differ, reference=sa["tasks"], reloaded=sb["tasks"])


_reload_plain = reload


def reload(I, prop, scen_name, max_evictions, max_paths):  # noqa: F811
    res = _reload_plain(I, prop, scen_name, max_evictions, max_paths)
    seen = {}
    for v in res.violations:
        if v.role not in seen and len(seen) < 4:
            seen[v.role] = confirm_reload(v, scen_name)
        if v.role in seen:
            v.confirmed, v.replay = seen[v.role]
    return res


def confirm_isolation(v, s1, s2):
    from . import replay
    conc = {}
    models = []
    for sname in (s1, s2):
        model, inputs = scen.catalogue()[sname]
        models.append(model)
        for k, spec in inputs.items():
            mv = (v.model or {}).get(k)
            conc[k] = (mv == "True") if spec == "$bool" else (int(mv) if spec == "$int" and mv is not None else spec)
    # the two skeletons may share a model id: deploy them under distinct ids
    ma = dict(models[0], id="mA")
    mb = dict(models[1], id="mB")
    log = [e for e in v.decisions["log"] if e[4] == "together"]
    idx = {"A": 0, "B": 1}

    def solo(m, which):
        steps = [{"op": "start", "mid": m["id"], "inputs": conc}]
        for e in log:
            if e[0] == "answer" and e[1] == which:
                steps.append({"op": "action", "kind": "next", "nid": e[2], "occurrence": 0, "options": {}} if e[2] != "<dyn>" else {"op": "answer_all", "max": 1, "options": {}})
        steps.append({"op": "answer_all", "max": 10, "options": {}})
        return {"config": {"keep_processes": True}, "threads": 0, "models": [m], "steps": steps, "known_nids": sorted(node_ids(m))}

    steps = [{"op": "start", "mid": "mA", "inputs": dict(conc, pid="pA")}, {"op": "start", "mid": "mB", "inputs": dict(conc, pid="pB")}]
    for e in log:
        if e[0] == "evict":
            steps.append({"op": "uncache", "pid_index": idx[e[1]]})
        elif e[0] == "answer":
            steps.append({"op": "action", "kind": "next", "nid": e[2], "occurrence": 0, "options": {}, "pid_index": idx[e[1]]})
    steps.append({"op": "answer_all", "max": 10, "options": {}, "pid_index": 0})
    steps.append({"op": "answer_all", "max": 10, "options": {}, "pid_index": 1})
    both = replay.run({"config": {"keep_processes": True, "cache_cap": 1}, "threads": 0, "models": [ma, mb], "steps": steps, "known_nids": sorted(node_ids(ma) | node_ids(mb))})
    ra = replay.run(solo(ma, "A"))
    rb = replay.run(solo(mb, "B"))
    if any("error" in x for x in (both, ra, rb)):
        return None, dict(err=[x.get("error") for x in (both, ra, rb)])
    ob = replay.normalise(both)
    res = {}
    differ = []
    for i, (m, solo_out) in enumerate(((ma, ra), (mb, rb))):
        s_solo = _real_summary(replay.normalise(solo_out), node_ids(m), 0)
        s_both = _real_summary(ob, node_ids(m), i)
        for k in ("tasks", "messages", "events"):
            if s_solo is None or s_both is None or s_solo[k] != s_both[k]:
                differ.append(k)
        res["proc%d" % i] = dict(solo=s_solo and s_solo["tasks"], together=s_both and s_both["tasks"])
    if v.role.startswith("isolation:action-rejected"):
        rej = [r for r in both["results"] if r.get("op") == "action" and not r.get("ok")]
        return bool(rej), dict(rejected=rej[:2])
    comp = v.role.split(":")[1].split("-")[0]
    if comp not in differ and v.decisions.get("evictions"):
        # the counterexample depends on which entry moka drops when the cache is over capacity at insert time; the replay
        # cannot steer that decision on the real engine: reported unconfirmed (see DESIGN.md, C13)
        return None, dict(differ=differ, unconfirmable="depends on moka's eviction decision at insert", **res)
    return (comp in differ), dict(differ=differ, **res)


_isolation_plain = isolation


def isolation(I, prop, s1, s2, cap, policy, max_paths, keep=True):  # noqa: F811
    res = _isolation_plain(I, prop, s1, s2, cap, policy, max_paths, keep)
    seen = {}
    for v in res.violations:
        if v.role not in seen and len(seen) < 4:
            seen[v.role] = confirm_isolation(v, s1, s2)
        if v.role in seen:
            v.confirmed, v.replay = seen[v.role]
    return res


# --------------------------------------------------------------------------------------------------- C13: bulk refill of the cache (Cache::restore / Store::load)
WHO = scen.wf("m", [scen.step("s1", [scen.irq("a1", params={"v": "{{ who }}"})]), scen.step("s2", [scen.irq("a2")])], inputs={"who": 0}, outputs={"who": None})
AUTO = scen.wf("mC", [scen.step("s1", [scen.msg("m1")])])


def _start_model(d, W, model, opts, tag):
    h = W.start(model, opts)
    if isinstance(h, Enum):
        raise Unsupported("start failed: %r" % (h,))
    return Proc(W, h, model, tag)


def restore_path(I, res, prop, policy):
    """Two processes of the SAME model started with different inputs are both out of the cache (evicted under load) when a third process finishes:
    the real Cache::restore refills the cache with both rows in one batch.  Each must go on exactly as it does alone."""
    d = Driver(I, res, prop, "restore-batch:" + policy)
    refs = []
    for who, tag in ((1, "A"), (2, "B")):
        W0 = d.world()
        p0 = _start_model(d, W0, WHO, {"who": who}, tag)
        W0.drain()
        n = 0
        while n < 6:
            irqs = d.open_irqs(p0)
            if not irqs or p0.done():
                break
            n += 1
            d.answer(W0, p0, irqs[0])
        refs.append(summary(W0, p0))
    d.phase = "together"
    W = d.world(policy=policy, cache_cap=4)
    pa = _start_model(d, W, WHO, {"who": 1, "pid": "pA"}, "A")
    pb = _start_model(d, W, WHO, {"who": 2, "pid": "pB"}, "B")
    W.drain()
    d.evict(W, pa)
    d.evict(W, pb)
    pc = _start_model(d, W, AUTO, {"pid": "pC"}, "C")
    d.log.append(("start-auto", "C", None, None, d.phase))
    W.drain()
    if not pc.done():
        raise Unsupported("the auto process did not finish")
    res.witnesses += 1
    procs = [pa, pb]
    n = 0
    while n < 12:
        cands = [(p, t) for p in procs for t in d.open_irqs(p)[:1] if not p.done()]
        if not cands:
            break
        n += 1
        p, t = cands[I.path.choose(len(cands), "who")] if len(cands) > 1 else cands[0]
        r = d.answer(W, p, t)
        if r is None or r.d != 0:
            d.viol("restore-batch:action-rejected", "completing %s of process %s was rejected after the cache was refilled" % (t["nid"], p.name))
            return
    for p, ref in ((pa, refs[0]), (pb, refs[1])):
        d.compare(ref, summary(W, p), "restore-batch", "same-model")
    if len(res.samples) < 2:
        res.samples.append(dict(check="restore-batch", log=d.log[:10]))


def confirm_restore(v):
    from . import replay
    log = [e for e in v.decisions["log"] if e[4] == "together"]
    idx = {"A": 0, "B": 1}
    known = node_ids(WHO)

    def solo(who, which):
        steps = [{"op": "start", "mid": "m", "inputs": {"who": who}}]
        for e in log:
            if e[0] == "answer" and e[1] == which:
                steps.append({"op": "action", "kind": "next", "nid": e[2], "occurrence": 0, "options": {}})
        steps.append({"op": "answer_all", "max": 6, "options": {}})
        return {"config": {"keep_processes": True}, "threads": 0, "models": [WHO], "steps": steps, "known_nids": sorted(known)}

    steps = [{"op": "start", "mid": "m", "inputs": {"who": 1, "pid": "pA"}}, {"op": "start", "mid": "m", "inputs": {"who": 2, "pid": "pB"}},
             {"op": "uncache", "pid_index": 0}, {"op": "uncache", "pid_index": 1}, {"op": "start", "mid": "mC", "inputs": {"pid": "pC"}}]
    for e in log:
        if e[0] == "answer":
            steps.append({"op": "action", "kind": "next", "nid": e[2], "occurrence": 0, "options": {}, "pid_index": idx[e[1]]})
    steps.append({"op": "answer_all", "max": 6, "options": {}, "pid_index": 0})
    steps.append({"op": "answer_all", "max": 6, "options": {}, "pid_index": 1})
    both = replay.run({"config": {"keep_processes": True, "cache_cap": 4}, "threads": 0, "models": [WHO, AUTO], "steps": steps, "known_nids": sorted(known | node_ids(AUTO))})
    ra, rb = replay.run(solo(1, "A")), replay.run(solo(2, "B"))
    if any("error" in x for x in (both, ra, rb)):
        return None, dict(err=[x.get("error") for x in (both, ra, rb)])
    ob = replay.normalise(both)
    differ = []
    info = {}
    for i, so in enumerate((ra, rb)):
        s_solo = _real_summary(replay.normalise(so), known, 0)
        s_both = _real_summary(ob, known, i)
        for k in ("tasks", "messages", "events"):
            if s_solo is None or s_both is None or s_solo[k] != s_both[k]:
                differ.append(k)
        info["proc%d" % i] = dict(solo=s_solo and s_solo["messages"][:4], together=s_both and s_both["messages"][:4])
    if v.role.startswith("restore-batch:action-rejected"):
        rej = [r for r in both["results"] if r.get("op") == "action" and not r.get("ok")]
        return bool(rej), dict(rejected=rej[:2])
    comp = v.role.split(":")[1].split("-")[0] if ":" in v.role else ""
    return (comp in differ), dict(differ=differ, **info)


def restore_batch(I, prop, policy, max_paths):
    res = explore(I, "restore-batch:" + policy, lambda I, res: restore_path(I, res, prop, policy), max_paths=max_paths)
    seen = {}
    for v in res.violations:
        if v.role not in seen and len(seen) < 4:
            seen[v.role] = confirm_restore(v)
        if v.role in seen:
            v.confirmed, v.replay = seen[v.role]
    return res


# --------------------------------------------------------------------------------------------------- C13: a timer tick with several processes in the cache
def tick_beside_path(I, res, prop, policy):
    """A process waiting on a timeout rule gets its tick whatever else sits in the cache (a finished process that is kept, a running one), in
    either insertion order: its summary after 'clock past the limit, tick, answer everything' equals the one of the process running alone."""
    d = Driver(I, res, prop, "tick-beside:" + policy)

    def run_timed(W, p):
        W.clock += 10 * 24 * 3600 * 1000
        W.tick()
        W.drain()
        n = 0
        while n < 8:
            p.live()
            irqs = d.open_irqs(p) if not p.done() else []
            if not irqs:
                break
            n += 1
            d.answer(W, p, irqs[0])

    W0 = d.world()
    p0 = d.start(W0, "tmo_act", "T")
    W0.drain()
    run_timed(W0, p0)
    ref = summary(W0, p0)
    d.phase = "together"
    other = ["auto", "one_irq"][I.path.choose(2, "other-process")]
    first = I.path.choose(2, "timed-process-first") == 1
    W = d.world(policy=policy)
    if first:
        pt = d.start(W, "tmo_act", "T", pid="pT")
        po = d.start(W, other, "O", pid="pO")
    else:
        po = d.start(W, other, "O", pid="pO")
        W.drain()
        pt = d.start(W, "tmo_act", "T", pid="pT")
    W.drain()
    d.log.append(("setup", other, first, None, d.phase))
    res.witnesses += 1
    run_timed(W, pt)
    d.compare(ref, summary(W, pt), "tick-beside", "%s-%s" % (other, "after" if first else "before"))
    if len(res.samples) < 2:
        res.samples.append(dict(check="tick-beside", other=other, timed_first=first))


def tick_beside(I, prop, policy, max_paths):
    return explore(I, "tick-beside:" + policy, lambda I, res: tick_beside_path(I, res, prop, policy), max_paths=max_paths)
