"""Job lists of the scripted forward-run checks (C02, C03, C05, C08): what quick and thorough explore."""
from . import scen


def scripted_jobs(prop, oracle, quick_names, tier, seed, extra=None, generated_kinds=None):
    extra = dict(extra or {})
    jobs = []

    def add(n, **kw):
        cfg = dict(extra, oracles=(oracle,), seed=seed)
        if generated_kinds and n in ("cancel_par", "par_block", "seq_block"):
            cfg["kinds"] = generated_kinds
        cfg.update(kw)
        jobs.append(("props.flow", "run_scenario", (n, cfg, prop)))

    if tier == "quick":
        for n in quick_names:
            for i in range(4):
                add(n, policy="fifo", k=2, targets="acts", part=(i, 4), max_paths=600)
            add(n, policy="lifo", k=1, targets="all", max_paths=400)
        for i in range(4):
            add("two_steps", policy="fifo", k=3, kinds=["Next", "Back", "Cancel", "Error"], targets="acts", part=(i, 4), max_paths=1500)
        bounds = dict(scenarios=quick_names, script_len=2, deep_script="two_steps: 3 actions from {complete, back, cancel, error}", action_kinds=10,
                      targets="every act task (fifo runs) / every task (lifo runs, 1 action)", queue="FIFO, LIFO")
    else:
        names = scen.flow_names()
        for n in names:
            for i in range(8):
                add(n, policy="fifo", k=2, targets="acts", part=(i, 8), max_paths=2500)
            add(n, policy="lifo", k=2 if n in quick_names else 1, targets="all", max_paths=3000)
            add(n, policy="explore", k=1, targets="acts", max_paths=3000)
        for n in ("seq2", "catch_act"):
            for i in range(16):
                add(n, policy="fifo", k=3, targets="acts", part=(i, 16), max_paths=500)
        for i in range(8):
            add("two_steps", policy="fifo", k=4, kinds=["Next", "Back", "Cancel", "Error", "Skip"], targets="acts", part=(i, 8), max_paths=4000)
        bounds = dict(scenarios=names, script_len="2 on every scenario; 3 on seq2 and catch_act (capped at 16 x 500 paths each, cap hits are listed as inconclusive)",
                      deep_script="two_steps: 4 actions from {complete, back, cancel, error, skip}", action_kinds=10,
                      targets="every act task (fifo / explore runs) / every task (lifo runs)", queue="FIFO, LIFO, and every service order with one scripted action")
    return jobs, bounds
