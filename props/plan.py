"""Job lists of the scripted forward-run checks (C02, C03, C05, C08): what quick and thorough explore."""
from . import scen


def scripted_jobs(prop, oracle, quick_names, tier, seed, extra=None, generated_kinds=None, error_scripts=True):
    extra = dict(extra or {})
    jobs = []

    def add(n, **kw):
        cfg = dict(extra, oracles=(oracle,), seed=seed)
        if generated_kinds and n in ("cancel_par", "seq_block"):
            cfg["kinds"] = generated_kinds
        cfg.update(kw)
        jobs.append(("props.flow", "run_scenario", (n, cfg, prop)))

    if tier == "quick":
        for n in quick_names:
            for i in range(4):
                add(n, policy="fifo", k=2, targets="acts", part=(i, 4), max_paths=600)
            add(n, policy="lifo", k=1, targets="all", max_paths=400)
        for i in range(4):
            add("two_steps", policy="fifo", k=3, kinds=["Next", "Back", "Cancel", "Error"], targets="acts", part=(i, 4), max_paths=1500)
        # every other hand-written skeleton once, answered to the end without scripted actions (cheap breadth: needs / else / nesting / hooks / env ...)
        for n in (scen.flow_names() if error_scripts else ()):   # (C05's oracle only fires on scripted actions)
            if n not in quick_names and n != "two_steps":
                add(n, policy="fifo", k=0, max_paths=200)
                add(n, policy="lifo", k=0, max_paths=200)
        # one or two client errors with codes from {e1, e2} on skeletons with several catch rules (the scripted actions above always use e1)
        for n in (("catch_two_codes", "catch_all_and_code", "catch_in_catch", "catch_nomatch_then_step") if error_scripts else ()):
            add(n, policy="fifo", k=0, error_script=True, errors=2, max_paths=400)
        bounds = dict(scenarios=quick_names, breadth="every other skeleton of scen.flow_names() answered to the end (no scripted action), FIFO and LIFO", script_len=2, error_scripts="1-2 client errors, codes e1/e2, on 4 skeletons with several catch rules", deep_script="two_steps: 3 actions from {complete, back, cancel, error}", action_kinds=10,
                      targets="every act task (fifo runs) / every task (lifo runs, 1 action)", queue="FIFO, LIFO")
    else:
        names = scen.flow_names()
        for n in names:
            for i in range(8):
                add(n, policy="fifo", k=2, targets="acts", part=(i, 8), max_paths=2500)
            add(n, policy="lifo", k=2 if n in quick_names else 1, targets="all", max_paths=3000)
            add(n, policy="explore", k=1, targets="acts", max_paths=3000)
        for n in ("seq2", "catch_act"):
            for i in range(16):
                add(n, policy="fifo", k=3, targets="acts", part=(i, 16), max_paths=500)
        for i in range(8):
            add("two_steps", policy="fifo", k=4, kinds=["Next", "Back", "Cancel", "Error", "Skip"], targets="acts", part=(i, 8), max_paths=4000)
        for n in (("catch_two_codes", "catch_all_and_code", "catch_in_catch", "catch_nomatch_then_step", "catch_act", "catch_step", "catch_multi_step", "catch_nested_par", "catch_outer_step_branch")
                  if error_scripts else ()):
            add(n, policy="explore", k=0, error_script=True, errors=2, answer_choice=True, max_paths=3000)
        bounds = dict(scenarios=names, error_scripts="1-2 client errors, codes e1/e2, on 9 catch skeletons, every order", script_len="2 on every scenario; 3 on seq2 and catch_act (capped at 16 x 500 paths each, cap hits are listed as inconclusive)",
                      deep_script="two_steps: 4 actions from {complete, back, cancel, error, skip}", action_kinds=10,
                      targets="every act task (fifo / explore runs) / every task (lifo runs)", queue="FIFO, LIFO, and every service order with one scripted action")
    if tier != "quick":
        # longest first (the unpartitioned and the deep jobs), so that the run does not end in a long tail of two or three workers
        def weight(j):
            cfg = j[2][1]
            return -(cfg.get("max_paths", 0) * (1 + cfg.get("k", 0)) * (1 if cfg.get("part") else 4))
        jobs.sort(key=weight)
    return jobs, bounds
