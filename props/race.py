"""C05, last clause: among concurrent identical actions on one act exactly one succeeds and successors are created once.

Two client threads A and B issue the same closing action on the same open act; B's whole call runs at one of A's
lock operations (mirsym/race.py).  The pre-emption point is a decision of the path: all of them are explored.
"""
import os

from mirsym.values import *
from mirsym.world import TERMINAL
from mirsym.harness import Violation, explore
from mirsym.race import Race
from . import scen
from .flow import Run, Cfg, install_trace_context

CLOSERS = ["Next", "Submit", "Skip", "Remove", "Abort", "Error", "Back"]


class RaceRun(Run):
    R_SKIP = Run.R_SKIP + ("seq_reference",)
    seq_reference = None  # shared by the paths of one exploration: (target, kind, pre) -> (accepted, task counts) of the sequential schedule

    def run(self, snaps=None):
        I = self.I
        phase = self.restore(snaps)
        if phase is None:
            W = self.boot()
            W.drain()
            phase = 0
            self.save(snaps, phase)
        W = self.W
        # optional prefix: complete the first `pre` open interrupts so that later acts are raced as well
        for n in range(getattr(self.cfg, "pre", 0)):
            irqs = self.open_irqs()
            if not irqs:
                break
            W.action(self.pid, irqs[0]["tid"], "Next", self.outputs_for(irqs[0]))
            self.log.append(dict(answer=irqs[0]["nid"], accepted=True, options=self.outputs_for(irqs[0]), occurrence=0))
            W.drain()
        cands = self.open_irqs()
        if not cands:
            return
        t = cands[I.path.choose(len(cands), "target")]
        kinds = self.cfg.kinds
        kind = kinds[I.path.choose(len(kinds), "kind")] if len(kinds) > 1 else kinds[0]
        opts = dict(self.outputs_for(t))
        if kind == "Error":
            opts.update({"ecode": "e1", "message": "boom"})
        if kind == "Back":
            opts.update({"to": self.model["steps"][0]["id"]})

        def run_b():
            return W.action(self.pid, t["tid"], kind, opts)

        R = Race(run_b, lambda idx: I.path.choose(2, "preempt") == 1)
        I.race = R
        R.active = True
        try:
            ra = W.action(self.pid, t["tid"], kind, opts)
            R.finish_a(I)
        finally:
            R.active = False
            I.race = None
        rb = R.b_result
        call_panics = list(W.panics)
        W.drain()
        self.res.witnesses += 1
        oks = [r is not None and r.d == 0 for r in (ra, rb)]
        n_ok = sum(oks)
        after = {}
        for x in self.tasks():
            after[x["nid"]] = after.get(x["nid"], 0) + 1
        self.log.append(dict(race=kind, target=t["nid"], occurrence=0, options=opts, n_ok=n_ok, preempted_at=R.preempted_at, site=R.preempt_site, lock_ops=R.count))
        key = (t["nid"], kind, getattr(self.cfg, "pre", 0))
        if R.preempted_at is None:
            # the sequential schedule A;B is the reference for every schedule of the same calls (it is always explored first: every
            # pre-empted path is an alternative of it)
            self.seq_reference[key] = (n_ok, after)
            return   # (an action the act refuses even without a race - a back whose target does not fit, an error whose code the declared outputs cut away - is not the race clause's subject)
        if key not in self.seq_reference:
            raise Unsupported("race: sequential reference missing for %r" % (key,))
        ref_ok, ref_after = self.seq_reference[key]
        if call_panics:
            self.viol("race:panic:action=%s" % kind, "a racing %s panicked: %s" % (kind, call_panics[-1][1][:200]))
        if n_ok != ref_ok:
            self.viol("race:accepted=%d:action=%s" % (n_ok, kind),
                      "two concurrent %s on open act %s: %d accepted, one after the other: %d (B ran at A's lock operation %s, %s)" % (kind, t["nid"], n_ok, ref_ok, R.preempted_at, R.preempt_site))
        more = sorted(n for n in after if after[n] > ref_after.get(n, 0))
        if more:
            self.viol("race:successors-created-twice:action=%s" % kind,
                      "two concurrent %s on %s created %s more often than the same calls one after the other (B ran at A's lock operation %s, %s)" % (kind, t["nid"], more, R.preempted_at, R.preempt_site))
        elif after != ref_after:
            self.viol("race:tasks-differ-from-sequential:action=%s" % kind, "two concurrent %s on %s: tasks %s, one after the other: %s" % (kind, t["nid"], after, ref_after))
        if len(self.res.samples) < 3:
            self.res.samples.append(dict(scenario=self.name, race=kind, target=t["nid"], lock_operations_of_A=R.count, preempted_at=R.preempted_at, accepted=n_ok))

    def viol(self, role, desc, detail=None):
        I = self.I
        self.res.violations.append(Violation(self.prop, role, desc, self.name, dict(decisions=list(I.path.taken), script=list(self.log)), {}, detail))


def concrete_inputs(inputs):
    return {k: (True if x == "$bool" else 5 if x == "$int" else x) for k, x in inputs.items()}


def confirm(v, name, attempts=12, threads=8):
    """The same race on the real engine: `threads` OS threads released by a barrier, up to `attempts` fresh runs."""
    from . import replay
    model, inputs = scen.catalogue()[name]
    script = v.decisions["script"]
    steps = [{"op": "start", "mid": model["id"], "inputs": concrete_inputs(inputs)}]
    race = None
    for e in script:
        if "answer" in e:
            steps.append({"op": "action", "kind": "next", "nid": e["answer"], "occurrence": 0, "options": e.get("options", {})})
        elif "race" in e:
            race = e
            steps.append({"op": "action", "kind": replay.snake(e["race"]), "nid": e["target"], "occurrence": e.get("occurrence", 0), "options": e.get("options", {}), "race": threads})
    if race is None:
        return None, None
    kind = race["race"]

    def counts_of(out):
        c = {}
        for t in (out["procs"][0]["tasks"] if out["procs"] else []):
            c[t["nid"]] = c.get(t["nid"], 0) + 1
        return c

    # reference on the real engine: the same call `threads` times one after the other
    seq_steps = [dict(st) for st in steps[:-1]]
    last = {k: x for k, x in steps[-1].items() if k != "race"}
    seq_steps += [dict(last) for _ in range(threads)]
    out = replay.run({"config": {"keep_processes": True}, "threads": 4, "models": [model], "steps": seq_steps, "known_nids": sorted(replay.node_ids(model))})
    if "error" in out:
        return None, out
    acts = [x for x in out["results"] if x.get("op") == "action"][-threads:]
    ref_ok = sum(1 for x in acts if x.get("ok"))
    ref_counts = counts_of(out)
    seen = []
    for a in range(attempts):
        sc = {"config": {"keep_processes": True}, "threads": 4, "models": [model], "steps": steps, "known_nids": sorted(replay.node_ids(model))}
        out = replay.run(sc)
        if "error" in out:
            seen.append(out["error"][:200])
            continue
        r = [x for x in out["results"] if x.get("op") == "race"]
        if not r:
            continue
        n_ok = r[0]["n_ok"]
        counts = counts_of(out)
        more = sorted(n for n in counts if counts[n] > ref_counts.get(n, 0))
        roles = set()
        if n_ok > ref_ok:
            # the model has two threads: "2 accepted" stands for "more than one after the other"
            roles.add("race:accepted=2:action=%s" % kind)
        if n_ok < ref_ok:
            roles.add("race:accepted=%d:action=%s" % (n_ok, kind))
        if more:
            roles.add("race:successors-created-twice:action=%s" % kind)
        elif counts != ref_counts:
            roles.add("race:tasks-differ-from-sequential:action=%s" % kind)
        seen.append(dict(n_ok=n_ok, sequential_ok=ref_ok, more=more))
        if v.role in roles:
            return True, dict(scenario=sc, attempt=a, observed=seen[-1], threads=threads)
    return False, dict(tried=seen[-6:], threads=threads)


def run_race(I, name, cfg_kw, prop):
    cfg = Cfg(**cfg_kw)
    snaps = {}

    reference = {}

    def one(I, res):
        r = RaceRun(I, res, name, cfg, prop)
        r.seq_reference = reference
        r.inputs = concrete_inputs(r.inputs)   # the race clause does not depend on the input valuation: one concrete valuation
        orig = r.install_event_monitor

        def inst(rebind=False):
            orig(rebind)
            install_trace_context(r)

        r.install_event_monitor = inst
        r.run(snaps)

    res = explore(I, "race:" + name, one, max_paths=cfg.max_paths, seed=cfg_kw.get("seed", 0), part=cfg_kw.get("part"))
    if cfg_kw.get("part"):
        res.name = "race:%s[%d/%d]" % (name, cfg_kw["part"][0], cfg_kw["part"][1])
    seen = {}
    for v in res.violations:
        if v.role in seen:
            v.confirmed, v.replay = seen[v.role]
            continue
        okc, info = confirm(v, name)
        v.confirmed, v.replay = okc, info
        seen[v.role] = (okc, info)
    return res


# ----------------------------------------------------------------------------------------------- two client threads on two DIFFERENT open acts
class PairRaceRun(RaceRun):
    """Thread A completes one open act while thread B completes another one of the same process (B's whole call at one of A's lock
    operations, or after A).  The flow oracles (C04 reference interpreter, C03 hierarchy / single terminal event) judge the outcome:
    the result must not depend on how the two calls interleave."""

    def run(self, snaps=None):
        I = self.I
        phase = self.restore(snaps)
        if phase is None:
            W = self.boot()
            W.drain()
            phase = 0
            self.save(snaps, phase)
        W = self.W
        cands = self.open_irqs()
        if len(cands) < 2:
            return
        ia = I.path.choose(len(cands), "target-a")
        rest = [c for i, c in enumerate(cands) if i != ia]
        ta = cands[ia]
        tb = rest[I.path.choose(len(rest), "target-b")] if len(rest) > 1 else rest[0]
        oa, ob = dict(self.outputs_for(ta)), dict(self.outputs_for(tb))

        def run_b():
            return W.action(self.pid, tb["tid"], "Next", ob)

        R = Race(run_b, lambda idx: I.path.choose(2, "preempt") == 1)
        I.race = R
        R.active = True
        try:
            ra = W.action(self.pid, ta["tid"], "Next", oa)
            R.finish_a(I)
        finally:
            R.active = False
            I.race = None
        rb = R.b_result
        self.race_info = dict(a=ta["nid"], b=tb["nid"], preempted_at=R.preempted_at, site=R.preempt_site)
        self.log.append(dict(race_pair=[ta["nid"], tb["nid"]], options=[oa, ob], preempted_at=R.preempted_at, site=R.preempt_site,
                             accepted=[ra is not None and ra.d == 0, rb is not None and rb.d == 0]))
        if not (ra is not None and ra.d == 0 and rb is not None and rb.d == 0):
            self.viol("rejected", "completing two different open acts concurrently: one call was rejected (%s)" % self.race_info)
        W.drain()
        self.res.witnesses += 1
        self.at_quiescence("race")
        self.answer_all()
        self.at_end()
        if len(self.res.samples) < 3:
            self.res.samples.append(dict(scenario=self.name, race_pair=[ta["nid"], tb["nid"]], lock_operations_of_A=R.count, preempted_at=R.preempted_at,
                                         final=[(t["nid"], t["state"]) for t in self.tasks()]))

    def viol(self, role, desc, detail=None):
        I = self.I
        m = I.model()
        model = {k: str(m.eval(v, model_completion=True)) for k, v in self.sym.items()} if m is not None else {}
        info = getattr(self, "race_info", {})
        self.res.violations.append(Violation(self.prop, "concurrent-completes:" + role, desc + " [A completes %s, B completes %s at A's lock operation %s, %s]" % (
            info.get("a"), info.get("b"), info.get("preempted_at"), info.get("site")), self.name, dict(decisions=list(I.path.taken), script=list(self.log)), model, detail))


class JobRaceRun(PairRaceRun):
    """A client action races with the scheduler loop: the client completes act X (no waiting), the signals this creates are pending, and the
    client's next call (completing another open act Y) runs while the scheduler's worker executes ONE of those signals.  Either side may be the
    one that is pre-empted at a lock operation."""

    def run(self, snaps=None):
        I = self.I
        phase = self.restore(snaps)
        if phase is None:
            W = self.boot()
            W.drain()
            phase = 0
            self.save(snaps, phase)
        W = self.W
        cands = self.open_irqs()
        if len(cands) < 2:
            return
        ix = I.path.choose(len(cands), "first-act")
        tx = cands[ix]
        rest = [c for i, c in enumerate(cands) if i != ix]
        ty = rest[I.path.choose(len(rest), "second-act")] if len(rest) > 1 else rest[0]
        ox, oy = dict(self.outputs_for(tx)), dict(self.outputs_for(ty))
        r0 = W.action(self.pid, tx["tid"], "Next", ox)
        # the spawned queue sends only move the signals into the channel
        while [1 for k, c in W.jobs if k == "send"]:
            W.run_one("job", [i for i, (k, c) in enumerate(W.jobs) if k == "send"][0])
        if not W.channel:
            return
        j = I.path.choose(len(W.channel), "signal") if len(W.channel) > 1 else 0
        client_is_a = I.path.choose(2, "pre-empted-side") == 0

        def client():
            return W.action(self.pid, ty["tid"], "Next", oy)

        def worker():
            W.run_one("sig", j)
            return ok(UNIT)

        a_fn, b_fn = (client, worker) if client_is_a else (worker, client)
        R = Race(b_fn, lambda idx: I.path.choose(2, "preempt") == 1)
        I.race = R
        R.active = True
        try:
            ra = a_fn()
            R.finish_a(I)
        finally:
            R.active = False
            I.race = None
        rc = ra if client_is_a else R.b_result
        self.race_info = dict(a=("client completes %s" % ty["nid"]) if client_is_a else "scheduler job", b="scheduler job" if client_is_a else ("client completes %s" % ty["nid"]),
                              preempted_at=R.preempted_at, site=R.preempt_site)
        self.log.append(dict(burst=[tx["nid"], ty["nid"]], options=[ox, oy], preempted_side="client" if client_is_a else "worker", preempted_at=R.preempted_at, site=R.preempt_site))
        if not (r0 is not None and r0.d == 0 and rc is not None and rc.d == 0):
            self.viol("rejected", "completing two open acts back to back: one call was rejected")
        W.drain()
        self.res.witnesses += 1
        self.at_quiescence("race")
        self.answer_all()
        self.at_end()
        if len(self.res.samples) < 3:
            self.res.samples.append(dict(scenario=self.name, burst=[tx["nid"], ty["nid"]], preempted_side="client" if client_is_a else "worker", lock_operations_of_A=R.count,
                                         preempted_at=R.preempted_at, final=[(t["nid"], t["state"]) for t in self.tasks()]))

    def viol(self, role, desc, detail=None):
        I = self.I
        m = I.model()
        model = {k: str(m.eval(v, model_completion=True)) for k, v in self.sym.items()} if m is not None else {}
        info = getattr(self, "race_info", {})
        self.res.violations.append(Violation(self.prop, "action-vs-scheduler:" + role, desc + " [A = %s, B = %s at A's lock operation %s, %s]" % (
            info.get("a"), info.get("b"), info.get("preempted_at"), info.get("site")), self.name, dict(decisions=list(I.path.taken), script=list(self.log)), model, detail))


class TickRaceRun(PairRaceRun):
    """A timer tick races with a client action: the timed act is open and past its limit; the client completes it while the tick handler
    (Runtime's on_tick closure -> Process::do_tick -> the timeout hook) runs.  Either side may be the pre-empted one."""

    def run(self, snaps=None):
        I = self.I
        phase = self.restore(snaps)
        if phase is None:
            W = self.boot()
            W.drain()
            phase = 0
            self.save(snaps, phase)
        W = self.W
        timed = [t for t in self.open_irqs() if (self.node_attr(t["nid"]) or (None, {}))[1].get("timeout")]
        if not timed:
            return
        t = timed[0]
        W.clock += 10 * 24 * 3600 * 1000   # far past every limit used by the skeletons
        client_is_a = I.path.choose(2, "pre-empted-side") == 0

        def client():
            return W.action(self.pid, t["tid"], "Next", dict(self.outputs_for(t)))

        def ticker():
            W.tick()
            return ok(UNIT)

        a_fn, b_fn = (client, ticker) if client_is_a else (ticker, client)
        R = Race(b_fn, lambda idx: I.path.choose(2, "preempt") == 1)
        I.race = R
        R.active = True
        try:
            ra = a_fn()
            R.finish_a(I)
        finally:
            R.active = False
            I.race = None
        self.race_info = dict(a=("client completes %s" % t["nid"]) if client_is_a else "timer tick", b="timer tick" if client_is_a else ("client completes %s" % t["nid"]),
                              preempted_at=R.preempted_at, site=R.preempt_site)
        self.log.append(dict(tick_race=t["nid"], options=dict(self.outputs_for(t)), preempted_side="client" if client_is_a else "tick", preempted_at=R.preempted_at,
                             action="Next", accepted=True, target=t["nid"], target_state="Interrupt"))
        W.drain()
        self.res.witnesses += 1
        self.at_quiescence("race")
        self.answer_all()
        self.at_end()
        if len(self.res.samples) < 3:
            self.res.samples.append(dict(scenario=self.name, tick_race=t["nid"], preempted_side="client" if client_is_a else "tick", lock_operations_of_A=R.count,
                                         preempted_at=R.preempted_at, final=[(x["nid"], x["state"]) for x in self.tasks()]))

    def viol(self, role, desc, detail=None):
        I = self.I
        if "timeout-handler-open-under-closed-act" in role:
            return  # the sequential order "tick, then the client closes the act" is C03's recorded finding, not a matter of the race
        info = getattr(self, "race_info", {})
        self.res.violations.append(Violation(self.prop, "tick-vs-action:" + role, desc + " [A = %s, B = %s at A's lock operation %s, %s]" % (
            info.get("a"), info.get("b"), info.get("preempted_at"), info.get("site")), self.name, dict(decisions=list(I.path.taken), script=list(self.log)), {}, detail))


def observe_pair(name, cfg, prop, script, zmodel, attempts=60):
    """Two OS threads released by one barrier, each completing one of the two acts, on the real engine (up to `attempts` fresh runs: the window is
    narrow); then everything open is answered and the same flow oracles are evaluated on what the engine shows.  Returns the union of roles seen."""
    from . import replay
    from .flow import ReplayRun, concrete_inputs as flow_inputs
    model, inputs = scen.catalogue()[name]
    pair = [e for e in script if "race_pair" in e or "burst" in e or "tick_race" in e]
    if not pair:
        return None, None
    pair = pair[0]
    sc_inputs = flow_inputs(inputs, zmodel)
    if "tick_race" in pair:
        # one thread completes the timed act, another one runs the tick handler, released by one barrier; the engine clock is far past the limit
        steps = [{"op": "start", "mid": model["id"], "inputs": sc_inputs},
                 {"op": "clock", "offset": 10 * 24 * 3600 * 1000},
                 {"op": "tick_race", "nid": pair["tick_race"], "options": pair["options"]},
                 {"op": "answer_all", "max": 12, "options": {}}]
    elif "burst" in pair:
        # the client completes the two acts back to back without waiting: the scheduler's worker thread is busy with the first while the second arrives
        steps = [{"op": "start", "mid": model["id"], "inputs": sc_inputs},
                 {"op": "burst", "nids": pair["burst"], "options": pair["options"]},
                 {"op": "answer_all", "max": 12, "options": {}}]
    else:
        steps = [{"op": "start", "mid": model["id"], "inputs": sc_inputs},
                 {"op": "race_pair", "nids": pair["race_pair"], "options": pair["options"]},
                 {"op": "answer_all", "max": 12, "options": {}}]
    union = set()
    first = {}

    class V:
        pass

    for a in range(attempts):
        for st in steps:
            if st.get("op") == "tick_race":
                st["spin"] = (a % 60) * 4000   # the tick handler starts with some latency: vary how long the client waits after the barrier
        out = replay.run({"config": {"keep_processes": True}, "threads": 4, "models": [model], "steps": steps, "known_nids": sorted(replay.node_ids(model))})
        if "error" in out:
            continue
        obs = replay.normalise(out)
        roles = []
        views = [dict(obs, procs=sn["procs"], messages=obs["messages"][: sn["nmsg"]], events=obs["events"][: sn["nevents"]]) for sn in obs["snapshots"] if sn["procs"]] + [obs]
        rr = None
        for view in views:
            rr = ReplayRun(name, cfg, prop, view, model)
            rr.log = [e for e in script if e.get("action")]
            for o in cfg.oracles:
                f = getattr(rr, "q_" + o, None)
                if f:
                    f("replay")
            roles += [r for r, d in rr.found]
        vv = V()
        vv.model, vv.role = zmodel, ""
        for o in cfg.oracles:
            f = getattr(rr, "r_" + o, None)
            if f:
                rr.found = []
                f(vv, obs)
                roles += [r for r, d in rr.found]
        for r in set(roles):
            if r not in first:
                first[r] = dict(attempt=a, tasks=[(t["nid"], t["state"]) for t in (obs["procs"][0]["tasks"] if obs["procs"] else [])])
        union |= set(roles)
        if union and a >= (20 if "race_pair" in pair else 60):
            break
    return union, dict(scenario=steps, attempts=a + 1, first_seen=first)


def run_pair_race(I, name, cfg_kw, prop):
    cfg = Cfg(**cfg_kw)
    snaps = {}

    def one(I, res):
        r = (TickRaceRun if cfg_kw.get("with_tick") else JobRaceRun if cfg_kw.get("with_scheduler") else PairRaceRun)(I, res, name, cfg, prop)
        orig = r.install_event_monitor

        def inst(rebind=False):
            orig(rebind)
            install_trace_context(r)

        r.install_event_monitor = inst
        r.run(snaps)

    res = explore(I, ("tick-race:" if cfg_kw.get("with_tick") else "job-race:" if cfg_kw.get("with_scheduler") else "pair-race:") + name, one, max_paths=cfg.max_paths, seed=cfg_kw.get("seed", 0))
    if res.violations:
        from mirsym.harness import load_known
        known = load_known()
        v0 = res.violations[0]
        union, info = observe_pair(name, cfg, prop, v0.decisions["script"], v0.model, attempts=250 if (cfg_kw.get("with_scheduler") or cfg_kw.get("with_tick")) else 60)
        keep = []
        dropped = set()
        for v in res.violations:
            want = v.role.split(":", 1)[1]
            if union is not None and want in union:
                v.confirmed, v.replay = True, info
                keep.append(v)
            elif (known.get((prop, v.role)) or {}).get("status") == "known":
                v.confirmed, v.replay = None, dict(note="listed finding; the real-engine race did not show it in this run", **(info or {}))
                keep.append(v)
            else:
                # a race the real engine did not show in the attempts made: not reported (it may need a narrower window, or the model may allow an
                # interleaving the engine's locking excludes); listed as inconclusive in the evidence
                dropped.add(v.role)
                if os.environ.get("VERIF_SHOW_DROPPED"):
                    print("DROPPED", v.role, "|", v.desc[:400])
        res.violations = keep
        if dropped:
            res.inconclusive = "race counterexamples not reproduced on the real engine in %s attempts (not reported): %s" % ((info or {}).get("attempts"), sorted(dropped)[:6])
    return res
