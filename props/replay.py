"""Replay of concrete scenarios on the real engine (E4) and evaluation of the same oracles on what it shows."""
import json
import os
import subprocess
import tempfile
import fcntl
import time

VERIF = os.path.dirname(os.path.dirname(os.path.abspath(__file__)))
# VERIF_REPO / VERIF_CACHE are used by the seeded-change lanes (tools/seed_matrix.py) to run the same checks on a scratch worktree
REPO = os.environ.get("VERIF_REPO", "/repo")
CACHE = os.environ.get("VERIF_CACHE", os.path.join(VERIF, ".cache"))
BIN = os.path.join(CACHE, "target-replay", "debug", "verif-replay")

STATE_MAP = {"none": "None", "ready": "Ready", "pending": "Pending", "running": "Running", "interrupted": "Interrupt",
             "completed": "Completed", "submitted": "Submitted", "backed": "Backed", "cancelled": "Cancelled", "error": "Error",
             "aborted": "Aborted", "skipped": "Skipped", "removed": "Removed", "created": "Created"}


def snake(name):
    out = []
    for i, c in enumerate(name):
        if c.isupper() and i > 0:
            out.append("_")
        out.append(c.lower())
    return "".join(out)


def build():
    """(Re)build the replay binary against /repo's current tree.  Returns error text or None."""
    os.makedirs(CACHE, exist_ok=True)
    lock = open(os.path.join(CACHE, ".lock-replay"), "w")
    fcntl.flock(lock, fcntl.LOCK_EX)
    try:
        env = dict(os.environ)
        env["CARGO_TARGET_DIR"] = os.path.join(CACHE, "target-replay")
        env["CARGO_NET_OFFLINE"] = "true"
        src = os.path.join(VERIF, "replay")
        if REPO != "/repo":
            # same crate, path dependency pointed at the scratch tree
            import shutil
            dst = os.path.join(CACHE, "replay-src")
            shutil.rmtree(dst, ignore_errors=True)
            shutil.copytree(src, dst, ignore=shutil.ignore_patterns("target"))
            t = open(os.path.join(dst, "Cargo.toml")).read().replace('"/repo/', '"%s/' % REPO)
            open(os.path.join(dst, "Cargo.toml"), "w").write(t)
            src = dst
        r = subprocess.run(["cargo", "build", "--offline", "--features", "verif"] if os.environ.get("VERIF_REPLAY_FEATURES") else ["cargo", "build", "--offline"],
                           cwd=src, env=env, stdout=subprocess.PIPE, stderr=subprocess.STDOUT)
        if r.returncode != 0:
            return r.stdout.decode("utf-8", "replace")[-3000:]
        return None
    finally:
        fcntl.flock(lock, fcntl.LOCK_UN)


def run(scenario, timeout=60):
    fd, path = tempfile.mkstemp(prefix="verif-sc-", suffix=".json", dir=CACHE)
    with os.fdopen(fd, "w") as f:
        json.dump(scenario, f)
    try:
        cwd = tempfile.mkdtemp(prefix="verif-rp-", dir=CACHE)
        r = subprocess.run([BIN, path], cwd=cwd, stdout=subprocess.PIPE, stderr=subprocess.PIPE, timeout=timeout)
        out = r.stdout.decode("utf-8", "replace").strip().split("\n")[-1] if r.stdout else ""
        try:
            os.rmdir(cwd)
        except OSError:
            pass
        if not out.startswith("{"):
            return dict(error="replay produced no output (rc=%s): %s" % (r.returncode, r.stderr.decode("utf-8", "replace")[-800:]))
        return json.loads(out)
    except subprocess.TimeoutExpired:
        return dict(error="replay timeout")
    finally:
        os.unlink(path)


def scenario_of(model, inputs, script, threads=0, config=None, opts_for=None):
    """model: dict; inputs: concrete dict; script: the Run.log entries."""
    steps = [{"op": "start", "mid": model["id"], "inputs": inputs}]
    known = node_ids(model)
    for e in script:
        if "action" in e and e.get("action"):
            st = {"op": "action", "kind": snake(e["action"]), "nid": e["target"], "occurrence": e.get("occurrence", 0), "options": e.get("options", {})}
        elif "answer" in e:
            st = {"op": "action", "kind": "next", "nid": e["answer"], "occurrence": e.get("occurrence", 0), "options": e.get("options", {})}
        else:
            continue
        if e.get("dyn_index") is not None:
            st["dyn_index"] = e["dyn_index"]
        steps.append(st)
    cfg = {"keep_processes": True}
    cfg.update(config or {})
    return {"config": cfg, "threads": threads, "models": [model], "steps": steps, "known_nids": sorted(known)}


def node_ids(model):
    from .flow import kids
    out = set()

    def walk(n):
        if n.get("id"):
            out.add(n["id"])
        for k2, c, _ in kids(n):
            walk(c)

    walk(model)
    return out


def normalise(out):
    """Bring the replay output into the vocabulary of the oracles."""
    procs = []
    for p in out.get("procs", []):
        tasks = []
        tid2nid = {}
        for t in p["tasks"]:
            tid2nid[t["tid"]] = t["nid"]
        for t in p["tasks"]:
            tasks.append(dict(pid=p["pid"], tid=t["tid"], nid=t["nid"], kind=t["type"].capitalize(), state=STATE_MAP.get(t["state"], t["state"]),
                              prev=t["prev"], data=t.get("data") or {}, start_time=t.get("start_time", 0), end_time=t.get("end_time", 0),
                              timestamp=t.get("timestamp", 0)))
        procs.append(dict(pid=p["pid"], state=STATE_MAP.get(p["state"], p["state"]), tasks=tasks))
    msgs = []
    for i, m in enumerate(out.get("messages", [])):
        mm = dict(m)
        mm["state"] = STATE_MAP.get(m["state"], m["state"])
        mm["_seq"] = i
        msgs.append(mm)
    evs = [(e["kind"], dict(pid=e["pid"], state=STATE_MAP.get(e["state"], e["state"]), outputs=e.get("outputs"), inputs=e.get("inputs"))) for e in out.get("events", [])]
    snaps = []
    for sn in out.get("snapshots", []):
        sp = []
        for p in sn["procs"]:
            sp.append(dict(pid=p["pid"], state=STATE_MAP.get(p["state"], p["state"]),
                           tasks=[dict(pid=p["pid"], tid=t["tid"], nid=t["nid"], kind=t["type"].capitalize(), state=STATE_MAP.get(t["state"], t["state"]),
                                       prev=t["prev"], data=t.get("data") or {}, start_time=t.get("start_time", 0), end_time=t.get("end_time", 0),
                                       timestamp=t.get("timestamp", 0)) for t in p["tasks"]]))
        snaps.append(dict(procs=sp, nmsg=sn["nmsg"], nevents=sn["nevents"], ntrace=sn.get("ntrace", 0), live=sn.get("live", []),
                          stored_procs=sn.get("stored_procs", []), stored_tasks=sn.get("stored_tasks", [])))
    kinds = {}
    for p in procs:
        for t in p["tasks"]:
            kinds[t["tid"]] = t["kind"]
    trace = [dict(pid=e["pid"], tid=e["tid"], how=e["how"], old=STATE_MAP.get(e["old"], e["old"]), new=STATE_MAP.get(e["new"], e["new"]),
                  kind=kinds.get(e["tid"], "?")) for e in out.get("trace", [])]
    return dict(procs=procs, messages=msgs, events=evs, results=out.get("results", []), trace=trace, live=out.get("live", []),
                stored_messages=out.get("stored_messages", []), snapshots=snaps, stored_procs=out.get("stored_procs", []), stored_tasks=out.get("stored_tasks", []))
