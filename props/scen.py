"""Workflow skeleton catalogue (python dicts in the shape of the YAML/JSON model)."""


def irq(i, **kw):
    d = {"id": i, "uses": "acts.core.irq", "key": "k_" + i}
    d.update(kw)
    return d


def msg(i, **kw):
    d = {"id": i, "uses": "acts.core.msg", "key": "k_" + i}
    d.update(kw)
    return d


def setv(i, params, **kw):
    d = {"id": i, "uses": "acts.transform.set", "params": params}
    d.update(kw)
    return d


def code(i, src, **kw):
    d = {"id": i, "uses": "acts.transform.code", "params": src}
    d.update(kw)
    return d


def block(i, mode, acts, **kw):
    d = {"id": i, "uses": "acts.core.block", "params": {"mode": mode, "acts": acts}}
    d.update(kw)
    return d


def step(i, acts=None, branches=None, **kw):
    d = {"id": i}
    if acts:
        d["acts"] = acts
    if branches:
        d["branches"] = branches
    d.update(kw)
    return d


def branch(i, steps, **kw):
    d = {"id": i, "steps": steps}
    d.update(kw)
    return d


def wf(i, steps, **kw):
    d = {"id": i, "steps": steps}
    d.update(kw)
    return d


def catch(steps, on=None):
    d = {"steps": steps}
    if on is not None:
        d["on"] = on
    return d


def timeout(on, steps):
    return {"on": on, "steps": steps}


# ----------------------------------------------------------------------------- catalogue
# Each entry: name -> (model, inputs, notes).  Inputs whose value is the string "$bool"/"$int"
# become symbolic start values (z3 Bool / Int) of that name.

def catalogue():
    C = {}
    C["seq2"] = (wf("m", [step("s1", [irq("a1"), irq("a2")]), step("s2", [irq("a3")])]), {})
    C["one_irq"] = (wf("m", [step("s1", [irq("a1")])]), {})
    C["if_else_first"] = (wf("m", [step("s1", branches=[
        branch("b2", [step("s21", [irq("a2")])], **{"else": True}),
        branch("b1", [step("s11", [irq("a1")])], **{"if": "c1"}),
    ]), step("s2", [irq("a3")])]), {"c1": "$bool"})
    C["if_else_last"] = (wf("m", [step("s1", branches=[
        branch("b1", [step("s11", [irq("a1")])], **{"if": "c1"}),
        branch("b2", [step("s21", [irq("a2")])], **{"else": True}),
    ]), step("s2", [irq("a3")])]), {"c1": "$bool"})
    C["two_if"] = (wf("m", [step("s1", branches=[
        branch("b1", [step("s11", [irq("a1")])], **{"if": "c1"}),
        branch("b2", [step("s21", [irq("a2")])], **{"if": "c2"}),
    ]), step("s2", [irq("a3")])]), {"c1": "$bool", "c2": "$bool"})
    C["two_if_else"] = (wf("m", [step("s1", branches=[
        branch("b1", [step("s11", [irq("a1")])], **{"if": "c1"}),
        branch("b2", [step("s21", [irq("a2")])], **{"if": "c2"}),
        branch("b3", [step("s31", [irq("a3")])], **{"else": True}),
    ])]), {"c1": "$bool", "c2": "$bool"})
    C["needs"] = (wf("m", [step("s1", branches=[
        branch("b1", [step("s11", [irq("a1")])], **{"if": "c1"}),
        branch("b2", [step("s21", [irq("a2")])], needs=["b1"]),
    ])]), {"c1": "$bool"})
    C["needs_first"] = (wf("m", [step("s1", branches=[
        branch("b2", [step("s21", [irq("a2")])], needs=["b1"]),
        branch("b1", [step("s11", [irq("a1")])], **{"if": "c1"}),
    ])]), {"c1": "$bool"})
    C["step_if"] = (wf("m", [step("s1", [irq("a1")], **{"if": "c1"}), step("s2", [irq("a2", **{"if": "c2"}), irq("a3")])]), {"c1": "$bool", "c2": "$bool"})
    C["catch_act"] = (wf("m", [step("s1", [irq("a1", catches=[catch([step("cs1", [irq("ca1")])], on="e1")]), irq("a2")]), step("s2", [irq("a3")])]), {})
    C["catch_step"] = (wf("m", [step("s1", [irq("a1")], catches=[catch([step("cs1", [irq("ca1")])])]), step("s2", [irq("a3")])]), {})
    C["catch_empty"] = (wf("m", [step("s1", [irq("a1", catches=[catch([], on="e1")])]), step("s2", [irq("a3")])]), {})
    C["msg_set"] = (wf("m", [step("s1", [msg("m1"), setv("v1", {"x": 5}), irq("a1")])], outputs={"x": None}), {})
    C["nested"] = (wf("m", [step("s1", branches=[
        branch("b1", [step("s11", branches=[
            branch("b11", [step("s111", [irq("a1")])], **{"if": "c2"}),
            branch("b12", [step("s121", [irq("a2")])], **{"else": True}),
        ])], **{"if": "c1"}),
        branch("b2", [step("s21", [irq("a3")])], **{"else": True}),
    ])]), {"c1": "$bool", "c2": "$bool"})
    C["empty_branch"] = (wf("m", [step("s1", branches=[
        branch("b1", [], **{"if": "c1"}),
        branch("b2", [step("s21", [irq("a2")])], **{"else": True}),
    ]), step("s2", [irq("a3")])]), {"c1": "$bool"})
    C["catch_nomatch_then_step"] = (wf("m", [step("s1", [irq("a1", catches=[catch([step("cs1", [irq("ca1")])], on="e2")]), irq("a2")],
                                                  catches=[catch([step("cs2", [irq("ca2")])])]), step("s2", [irq("a3")])]), {})
    C["catch_two_codes"] = (wf("m", [step("s1", [irq("a1", catches=[catch([step("cs1", [irq("ca1")])], on="e2"), catch([step("cs2", [irq("ca2")])], on="e1")])]),
                                     step("s2", [irq("a3")])]), {})
    C["catch_outer_step_branch"] = (wf("m", [step("s1", branches=[
        branch("b1", [step("s11", [irq("a1")])], **{"if": "c1"}),
        branch("b2", [step("s21", [irq("a2")])], **{"else": True}),
    ], catches=[catch([step("cs1", [irq("ca1")])], on="e1")]), step("s2", [irq("a3")])]), {"c1": "$bool"})
    C["catch_nested_par"] = (wf("m", [step("s1", branches=[
        branch("b1", [step("s11", [irq("a1")])], **{"if": "c1"}),
        branch("b2", [step("s21", [irq("a2", catches=[catch([step("cs2", [irq("ca2")])], on="e1")])])], **{"if": "c2"}),
    ], catches=[catch([step("cs1", [irq("ca1")])])]), step("s2", [irq("a3")])]), {"c1": "$bool", "c2": "$bool"})
    C["catch_in_catch"] = (wf("m", [step("s1", [irq("a1")], catches=[catch([step("cs1", [irq("ca1", catches=[catch([step("cs2", [irq("ca2")])], on="e2")])])])]),
                                    step("s2", [irq("a3")])]), {})
    C["catch_none"] = (wf("m", [step("s1", [irq("a1"), irq("a2")]), step("s2", [irq("a3")])]), {})
    C["catch_all_and_code"] = (wf("m", [step("s1", [irq("a1", catches=[catch([step("cs1", [irq("ca1")])]), catch([step("cs2", [irq("ca2")])], on="e1")])]),
                                        step("s2", [irq("a3")])]), {})
    C["tail_if"] = (wf("m", [step("s1", [irq("a1")]), step("s2", [irq("a2")], **{"if": "c1"})]), {"c1": "$bool"})
    C["branch_tail_if"] = (wf("m", [step("s1", branches=[
        branch("b1", [step("s11", [irq("a1")]), step("s12", [irq("a2")], **{"if": "c2"})], **{"if": "c1"}),
        branch("b2", [step("s21", [irq("a3")])], **{"else": True}),
    ]), step("s2", [irq("a4")])]), {"c1": "$bool", "c2": "$bool"})
    C["par_block"] = (wf("m", [step("s1", [block("blk", "parallel", [irq("a1"), irq("a2"), irq("a3")])]), step("s2", [irq("a4")])]), {})
    C["seq_block"] = (wf("m", [step("s1", [block("blk", "sequence", [irq("a1"), irq("a2")])])]), {})
    return C
