"""Workflow skeleton catalogue (python dicts in the shape of the YAML/JSON model)."""


def irq(i, **kw):
    d = {"id": i, "uses": "acts.core.irq", "key": "k_" + i}
    d.update(kw)
    return d


def msg(i, **kw):
    d = {"id": i, "uses": "acts.core.msg", "key": "k_" + i}
    d.update(kw)
    return d


def setv(i, params, **kw):
    d = {"id": i, "uses": "acts.transform.set", "params": params}
    d.update(kw)
    return d


def code(i, src, **kw):
    d = {"id": i, "uses": "acts.transform.code", "params": src}
    d.update(kw)
    return d


def block(i, mode, acts, **kw):
    d = {"id": i, "uses": "acts.core.block", "params": {"mode": mode, "acts": acts}}
    d.update(kw)
    return d


def step(i, acts=None, branches=None, **kw):
    d = {"id": i}
    if acts:
        d["acts"] = acts
    if branches:
        d["branches"] = branches
    d.update(kw)
    return d


def branch(i, steps, **kw):
    d = {"id": i, "steps": steps}
    d.update(kw)
    return d


def wf(i, steps, **kw):
    d = {"id": i, "steps": steps}
    d.update(kw)
    return d


def catch(steps, on=None):
    d = {"steps": steps}
    if on is not None:
        d["on"] = on
    return d


def timeout(on, steps):
    return {"on": on, "steps": steps}


# ----------------------------------------------------------------------------- catalogue
# Each entry: name -> (model, inputs, notes).  Inputs whose value is the string "$bool"/"$int"
# become symbolic start values (z3 Bool / Int) of that name.

def catalogue():
    C = {}
    C["seq2"] = (wf("m", [step("s1", [irq("a1"), irq("a2")]), step("s2", [irq("a3")])]), {})
    # explicit `next` on the last step of a sequence (loop back to an earlier step): used for the tree check only (running it never ends)
    C["step_next"] = (wf("m", [step("s1", [irq("a1")]), step("s2", [irq("a2"), irq("a2b")], next="s1")]), {})
    # a long timeout rule on an open act and a timer tick before the client answers (reload must keep the start time)
    C["tmo_reload"] = (wf("m", [step("s1", [irq("a1", timeout=[timeout("1h", [step("ts0", [irq("ta0")])])], _pre_actions=[["SetProcessVars", {"z": 1}], ["Tick", {}]])]), step("s2", [irq("a2", _pre_actions=[["SetProcessVars", {"z": 2}], ["Tick", {}]])],
                                                                                                                                                 timeout=[timeout("2h", [step("ts1", [irq("ta1")])])])]), {})
    # steps and acts WITHOUT explicit ids (the engine generates them when the tree is built; the stored model must carry them for a reload)
    C["no_ids"] = ({"id": "m", "steps": [{"acts": [{"uses": "acts.core.irq", "key": "k1"}]}, {"acts": [{"uses": "acts.core.irq", "key": "k2"}, {"uses": "acts.core.irq", "key": "k3"}]}]}, {})
    # a step that declares branches AND acts (tree check only)
    C["branches_and_acts"] = (wf("m", [step("s1", [irq("x1"), irq("x2")], branches=[branch("b1", [step("s11", [irq("a1")])], **{"if": "c1"}), branch("b2", [step("s21", [irq("a2")])], **{"else": True})]),
                                       step("s2", [irq("a3")])]), {"c1": "$bool"})
    # two branches that are both taken; the first one is a sequence, so completing its first act leaves work for the scheduler while the other branch waits for the client
    C["two_seq_branches"] = (wf("m", [step("s1", branches=[branch("b1", [step("s11", [irq("a1"), irq("a1b")])], **{"if": "c1"}), branch("b2", [step("s21", [irq("a2")])], **{"if": "c2"})]),
                                      step("s2", [irq("a3")])]), {"c1": "$bool", "c2": "$bool"})
    # as above, but the work left for the scheduler FINISHES the first branch (a msg act completes by itself): worker and client both end a branch of s1
    C["two_branches_msg"] = (wf("m", [step("s1", branches=[branch("b1", [step("s11", [irq("a1"), msg("m1")])], **{"if": "c1"}), branch("b2", [step("s21", [irq("a2")])], **{"if": "c2"})]),
                                      step("s2", [irq("a3")])]), {"c1": "$bool", "c2": "$bool"})
    # a timed act (1s rule with a handler step) followed by another step: for the tick-vs-action race
    C["tmo_act"] = (wf("m", [step("s1", [irq("a1", timeout=[timeout("1s", [step("ts0", [irq("ta0")])])])]), step("s2", [irq("a2")])]), {})
    # the client fails a1 with a code its catch takes: the catch steps wait for the client while a1 is running again (reload in between)
    C["catch_reload"] = (wf("m", [step("s1", [irq("a1", catches=[catch([step("cs1", [irq("ca1")])], on="e1")], _close_with=["Error", {"ecode": "e1", "message": "boom"}]), irq("a2")]),
                                  step("s2", [irq("a3")])]), {})
    C["two_steps"] = (wf("m", [step("s1", [irq("a1")]), step("s2", [irq("a2")])]), {})
    C["one_irq"] = (wf("m", [step("s1", [irq("a1")])]), {})
    C["if_else_first"] = (wf("m", [step("s1", branches=[
        branch("b2", [step("s21", [irq("a2")])], **{"else": True}),
        branch("b1", [step("s11", [irq("a1")])], **{"if": "c1"}),
    ]), step("s2", [irq("a3")])]), {"c1": "$bool"})
    C["if_else_last"] = (wf("m", [step("s1", branches=[
        branch("b1", [step("s11", [irq("a1")])], **{"if": "c1"}),
        branch("b2", [step("s21", [irq("a2")])], **{"else": True}),
    ]), step("s2", [irq("a3")])]), {"c1": "$bool"})
    C["two_if"] = (wf("m", [step("s1", branches=[
        branch("b1", [step("s11", [irq("a1")])], **{"if": "c1"}),
        branch("b2", [step("s21", [irq("a2")])], **{"if": "c2"}),
    ]), step("s2", [irq("a3")])]), {"c1": "$bool", "c2": "$bool"})
    C["two_if_else"] = (wf("m", [step("s1", branches=[
        branch("b1", [step("s11", [irq("a1")])], **{"if": "c1"}),
        branch("b2", [step("s21", [irq("a2")])], **{"if": "c2"}),
        branch("b3", [step("s31", [irq("a3")])], **{"else": True}),
    ])]), {"c1": "$bool", "c2": "$bool"})
    C["needs"] = (wf("m", [step("s1", branches=[
        branch("b1", [step("s11", [irq("a1")])], **{"if": "c1"}),
        branch("b2", [step("s21", [irq("a2")])], needs=["b1"]),
    ])]), {"c1": "$bool"})
    C["needs_first"] = (wf("m", [step("s1", branches=[
        branch("b2", [step("s21", [irq("a2")])], needs=["b1"]),
        branch("b1", [step("s11", [irq("a1")])], **{"if": "c1"}),
    ])]), {"c1": "$bool"})
    C["step_if"] = (wf("m", [step("s1", [irq("a1")], **{"if": "c1"}), step("s2", [irq("a2", **{"if": "c2"}), irq("a3")])]), {"c1": "$bool", "c2": "$bool"})
    C["catch_act"] = (wf("m", [step("s1", [irq("a1", catches=[catch([step("cs1", [irq("ca1")])], on="e1")]), irq("a2")]), step("s2", [irq("a3")])]), {})
    C["catch_step"] = (wf("m", [step("s1", [irq("a1")], catches=[catch([step("cs1", [irq("ca1")])])]), step("s2", [irq("a3")])]), {})
    C["catch_empty"] = (wf("m", [step("s1", [irq("a1", catches=[catch([], on="e1")])]), step("s2", [irq("a3")])]), {})
    C["outs_act"] = (wf("m", [step("s1", [irq("a1", outputs={"r": None}), irq("a2")]), step("s2", [irq("a3", outputs={"q": None, "r": None})])], outputs={"r": None}), {})
    C["msg_set"] = (wf("m", [step("s1", [msg("m1"), setv("v1", {"x": 5}), irq("a1")])], outputs={"x": None}), {})
    C["nested"] = (wf("m", [step("s1", branches=[
        branch("b1", [step("s11", branches=[
            branch("b11", [step("s111", [irq("a1")])], **{"if": "c2"}),
            branch("b12", [step("s121", [irq("a2")])], **{"else": True}),
        ])], **{"if": "c1"}),
        branch("b2", [step("s21", [irq("a3")])], **{"else": True}),
    ])]), {"c1": "$bool", "c2": "$bool"})
    C["empty_branch"] = (wf("m", [step("s1", branches=[
        branch("b1", [], **{"if": "c1"}),
        branch("b2", [step("s21", [irq("a2")])], **{"else": True}),
    ]), step("s2", [irq("a3")])]), {"c1": "$bool"})
    C["catch_nomatch_then_step"] = (wf("m", [step("s1", [irq("a1", catches=[catch([step("cs1", [irq("ca1")])], on="e2")]), irq("a2")],
                                                  catches=[catch([step("cs2", [irq("ca2")])])]), step("s2", [irq("a3")])]), {})
    C["catch_two_codes"] = (wf("m", [step("s1", [irq("a1", catches=[catch([step("cs1", [irq("ca1")])], on="e2"), catch([step("cs2", [irq("ca2")])], on="e1")])]),
                                     step("s2", [irq("a3")])]), {})
    C["catch_outer_step_branch"] = (wf("m", [step("s1", branches=[
        branch("b1", [step("s11", [irq("a1")])], **{"if": "c1"}),
        branch("b2", [step("s21", [irq("a2")])], **{"else": True}),
    ], catches=[catch([step("cs1", [irq("ca1")])], on="e1")]), step("s2", [irq("a3")])]), {"c1": "$bool"})
    C["catch_nested_par"] = (wf("m", [step("s1", branches=[
        branch("b1", [step("s11", [irq("a1")])], **{"if": "c1"}),
        branch("b2", [step("s21", [irq("a2", catches=[catch([step("cs2", [irq("ca2")])], on="e1")])])], **{"if": "c2"}),
    ], catches=[catch([step("cs1", [irq("ca1")])])]), step("s2", [irq("a3")])]), {"c1": "$bool", "c2": "$bool"})
    C["catch_in_catch"] = (wf("m", [step("s1", [irq("a1")], catches=[catch([step("cs1", [irq("ca1", catches=[catch([step("cs2", [irq("ca2")])], on="e2")])])])]),
                                    step("s2", [irq("a3")])]), {})
    # errors raised by the engine itself while an act is initialised (no such package / no `uses` at all)
    C["init_err_own_catch"] = (wf("m", [step("s1", [{"id": "x1", "uses": "pkg.not.installed", "key": "k_x1", "catches": [catch([step("cs1", [irq("ca1")])])]}, irq("a2")]), step("s2", [irq("a3")])]), {})
    C["init_err_step_catch"] = (wf("m", [step("s1", [irq("a1"), {"id": "x1", "uses": "", "key": "k_x1"}], catches=[catch([step("cs1", [irq("ca1")])])]), step("s2", [irq("a3")])]), {})
    C["init_err_uncaught"] = (wf("m", [step("s1", [irq("a1"), {"id": "x1", "uses": "pkg.not.installed", "key": "k_x1", "catches": [catch([step("cs1", [irq("ca1")])], on="e1")]}]), step("s2", [irq("a3")])]), {})
    C["catch_none"] = (wf("m", [step("s1", [irq("a1"), irq("a2")]), step("s2", [irq("a3")])]), {})
    C["catch_all_and_code"] = (wf("m", [step("s1", [irq("a1", catches=[catch([step("cs1", [irq("ca1")])]), catch([step("cs2", [irq("ca2")])], on="e1")])]),
                                        step("s2", [irq("a3")])]), {})
    C["env_flow"] = (wf("m", [step("s1", [code("c1", "$set_process_var(\"pv\", 7); $env.e1 = 5; return {y: 3};"), irq("a1")]),
                              step("s2", [irq("a2", params={"v": "{{ $env.e1 }}", "w": "{{ $env.e0 }}"}), irq("a3", **{"if": "$env.e1 > 3"})])],
                        env={"e0": 1}, outputs={"y": None}), {})
    C["two_scope_vars"] = (wf("m", [step("s1", [irq("a1", _answer={"a": 5, "b": 6})], inputs={"b": 1}), step("s2", [irq("a2")])], inputs={"a": 1}), {})
    C["hook_completed_wf"] = (wf("m", [step("s1", [irq("a1")])], setup=[{"uses": "acts.core.msg", "key": "done_wf", "on": "completed"}]), {})
    C["hook_completed_act"] = (wf("m", [step("s1", [irq("a1", setup=[{"uses": "acts.core.msg", "key": "done_act", "on": "completed"}])])]), {})
    C["params_template"] = (wf("m", [step("s1", [irq("a1", params={"v": "{{ v }}"}, _pre_actions=[["SetProcessVars", {"v": 2}]])]), step("s2", [irq("a2")])], inputs={"v": 1}), {})
    C["catch_multi_step"] = (wf("m", [step("s1", [irq("a1")], catches=[catch([step("cs1", [irq("ca1")]), step("cs2", [irq("ca2")])], on="e1")]), step("s2", [irq("a3")])]), {})
    C["auto"] = (wf("m", [step("s1", [msg("m1")])]), {})
    C["tail_if"] = (wf("m", [step("s1", [irq("a1")]), step("s2", [irq("a2")], **{"if": "c1"})]), {"c1": "$bool"})
    C["branch_tail_if"] = (wf("m", [step("s1", branches=[
        branch("b1", [step("s11", [irq("a1")]), step("s12", [irq("a2")], **{"if": "c2"})], **{"if": "c1"}),
        branch("b2", [step("s21", [irq("a3")])], **{"else": True}),
    ]), step("s2", [irq("a4")])]), {"c1": "$bool", "c2": "$bool"})
    C["par_block"] = (wf("m", [step("s1", [block("blk", "parallel", [irq("a1"), irq("a2"), irq("a3")])]), step("s2", [irq("a4")])]), {})
    C["cancel_par"] = (wf("m", [step("s1", [irq("a1")]), step("s2", [{"id": "gen", "uses": "acts.core.parallel", "params": {"in": ["u", "v"], "acts": [{"uses": "acts.core.irq", "key": "r"}]}}]),
                                step("s3", [irq("a9")])]), {})
    C["seq_block"] = (wf("m", [step("s1", [block("blk", "sequence", [irq("a1"), irq("a2")])])]), {})
    return C


# ----------------------------------------------------------------------------- C04 generated family
CONDS = {"A": "x > 2", "B": "y > 2", "C": "x == y"}


def c04_family(max_branches=3):
    """Steps with 2..3 branches of every kind in every declaration order, followed by a second step;
    plus conditional steps / acts.  Conditions are comparisons over the integer inputs x and y."""
    import itertools
    C = {}
    kinds = ["ifA", "ifB", "ifC", "else", "needs"]
    for n in range(2, max_branches + 1):
        for combo in itertools.product(kinds, repeat=n):
            if combo.count("else") > 1 or combo.count("needs") > 1:
                continue
            if not any(k.startswith("if") for k in combo):
                continue
            if len(set(combo)) != len(combo):
                continue
            branches = []
            for i, k in enumerate(combo):
                bid = "b%d" % (i + 1)
                kw = {}
                if k.startswith("if"):
                    kw["if"] = CONDS[k[2]]
                elif k == "else":
                    kw["else"] = True
                else:
                    # needs the first conditional sibling
                    tgt = [j for j, kk in enumerate(combo) if kk.startswith("if")][0]
                    kw["needs"] = ["b%d" % (tgt + 1)]
                branches.append(branch(bid, [step("s%d1" % (i + 1), [irq("a%d" % (i + 1))])], **kw))
            name = "c04:" + ",".join(combo)
            C[name] = (wf("m", [step("s1", branches=branches), step("s2", [irq("z1")])]), {"x": "$int", "y": "$int"})
    # a needs-branch with two needed siblings, in several declaration orders (it starts after ANY needed sibling finished)
    for tag, order in (("12n", (1, 2, 3)), ("21n", (2, 1, 3)), ("n12", (3, 1, 2)), ("1n2", (1, 3, 2))):
        bs = {1: branch("b1", [step("s11", [irq("a1")])], **{"if": CONDS["A"]}), 2: branch("b2", [step("s21", [irq("a2")])], **{"if": CONDS["B"]}),
              3: branch("b3", [step("s31", [irq("a3")])], needs=["b1", "b2"])}
        C["c04:needs2:" + tag] = (wf("m", [step("s1", branches=[bs[i] for i in order]), step("s2", [irq("z1")])]), {"x": "$int", "y": "$int"})
    C["c04:steps-acts-if"] = (wf("m", [step("s1", [irq("a1", **{"if": CONDS["A"]}), irq("a2"), irq("a3", **{"if": CONDS["C"]})]),
                                       step("s2", [irq("a4")], **{"if": CONDS["B"]}), step("s3", [irq("a5")])]), {"x": "$int", "y": "$int"})
    C["c04:nested"] = (wf("m", [step("s1", branches=[
        branch("b1", [step("s11", branches=[
            branch("b11", [step("s111", [irq("a1")])], **{"else": True}),
            branch("b12", [step("s121", [irq("a2")])], **{"if": CONDS["B"]}),
        ]), step("s12", [irq("a3")], **{"if": CONDS["C"]})], **{"if": CONDS["A"]}),
        branch("b2", [step("s21", [irq("a4")])], **{"else": True}),
    ]), step("s2", [irq("a5")])]), {"x": "$int", "y": "$int"})
    return C


_BASE_CATALOGUE = catalogue


def catalogue():  # noqa: F811
    C = _BASE_CATALOGUE()
    C.update(c04_family())
    return C


# skeletons that only make sense for a particular driver (tree check, engine-raised errors, reload with ticks)
SPECIAL = ("step_next", "tmo_reload", "no_ids", "branches_and_acts", "tmo_act", "catch_reload", "init_err_own_catch", "init_err_step_catch", "init_err_uncaught")


def flow_names(extended=True):
    """Scenarios for the scripted forward runs (C01-C03, C05, C08, C11): every hand-written skeleton that runs to an end when answered."""
    names = [n for n in catalogue() if not n.startswith("c04:") and n not in SPECIAL]
    if not extended:
        names = [n for n in names if n not in ("catch_nested_par", "catch_in_catch", "catch_all_and_code", "catch_outer_step_branch", "params_template", "two_scope_vars")]
    return names
