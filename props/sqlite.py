"""C10, SQLite backend, row-mapper part: create / find / update / delete / exists of the six collections of acts-store-sqlite are executed
on the crate's MIR with the sea-query builder and rusqlite replaced by a table model (a statement is the structure the builder calls
describe; `execute` / `query_row` apply it to a dict of rows).  What is decided: every field written by create / update goes to a column,
and find reads every field back from the column it was written to (validity of field equality for symbolic integer fields).  NOT decided:
the SQL text sea-query generates, SQLite's own behaviour, and the filter / order / paging translation of `query`."""
import re
import z3

from mirsym.values import *
from mirsym.harness import Violation, explore
from mirsym.intr_core import struct_eq
from .store import Ctx, sym_record, fields_of, _rec_recipe, _concrete

COLLS = {"Model": ("model", "ModelCollection"), "Proc": ("proc", "ProcCollection"), "Task": ("task", "TaskCollection"), "Message": ("message", "MessageCollection"),
         "Package": ("package", "PackageCollection"), "Event": ("event", "EventCollection")}


class MapperFault(Exception):
    pass


class SqlStr(str):
    """The SQL text of a built statement: the table model keeps the statement structure next to it."""
    stmt = None


class Stmt:
    def __init__(self, kind):
        self.kind = kind
        self.table = None
        self.cols = []
        self.vals = []
        self.sets = []
        self.where = None
        self.count = False

    def __deepcopy__(self, memo):
        return self


def snake(name):
    return re.sub(r"(?<!^)([A-Z])", r"_\1", name).lower()


def col_of(v):
    v = deref_all(v)
    if isinstance(v, Enum):
        return v.vn
    if isinstance(v, Agg) and "CollectionIden::" in str(v.ty):   # a fieldless variant the interpreter built as a unit struct
        return str(v.ty).split("::")[-1]
    if isinstance(v, Agg) and v.f and isinstance(deref_all(v.f[0]), str):   # sea_query::Alias("id")
        return deref_all(v.f[0])
    if isinstance(v, str):
        return v
    raise Unsupported("sqlite model: column identifier %r (%s, vn=%r, ty=%r)" % (v, type(v).__name__, getattr(v, "vn", None), getattr(v, "ty", None)))


def register(I, DB):
    intr = I.intrinsic
    pat = I.pattern

    @intr("r2d2::Pool::get")
    def _get(I, a, cc):
        return ok(BoxV(Agg("rusqlite::Connection", []), "box"))

    @pat(r"^<r2d2::PooledConnection as std::ops::Deref>::deref$")
    def _conn_deref(I, a, cc):
        return a[0]

    @intr("sea_query::Query::insert", "sea_query::Query::select", "sea_query::Query::update", "sea_query::Query::delete")
    def _q(I, a, cc):
        return Agg("sea_query::Stmt", [Stmt(cc.norm.split("::")[-1])])

    def st(x):
        return deref_all(x).f[0]

    @intr("sea_query::InsertStatement::into_table", "sea_query::UpdateStatement::table", "sea_query::SelectStatement::from", "sea_query::DeleteStatement::from_table")
    def _table(I, a, cc):
        st(a[0]).table = "table"   # one collection per run
        return a[0]

    @intr("sea_query::InsertStatement::columns", "sea_query::SelectStatement::columns")
    def _columns(I, a, cc):
        arr = deref_all(a[1])
        st(a[0]).cols = [col_of(x) for x in (arr.a if hasattr(arr, "a") else arr.f)]
        return a[0]

    @pat(r"^<.* as std::convert::Into<sea_query::(SimpleExpr|Value)>>::into$")
    def _into_expr(I, a, cc):
        return a[0]

    def convert(I, v, src, dst):
        if dst.startswith(("SimpleExpr", "sea_query::SimpleExpr", "sea_query::Value")) or dst == "Value" and "sea_query" in src:
            return v
        if dst.split("::")[-1] == "MessageStatus" and src in ("i8", "i64") and isinstance(v, Enum):
            return v   # the model of Into<i8> left the status as the enum value (its discriminant is the integer)
        if dst.split("::")[-1] == "MessageStatus" and src in ("i8", "i64"):
            # acts' own impl From<i8> for MessageStatus, named through the crate's re-export here
            return I.call_raw("<store::data::message::MessageStatus as std::convert::From<%s>>::from" % src, [v], None)
        if src.split("::")[-1] == "MessageStatus" and dst in ("i8", "i64"):
            return I.call_raw("<store::data::message::MessageStatus as std::convert::Into<%s>>::into" % dst, [v], None)
        return NotImplemented

    I.convert_fallback = convert

    @intr("sea_query::InsertStatement::values")
    def _ins_values(I, a, cc):
        arr = deref_all(a[1])
        st(a[0]).vals = list(arr.a if hasattr(arr, "a") else arr.f)
        return ok(a[0])

    @intr("sea_query::UpdateStatement::values")
    def _upd_values(I, a, cc):
        arr = deref_all(a[1])
        st(a[0]).sets = [(col_of(t.f[0]), t.f[1]) for t in (arr.a if hasattr(arr, "a") else arr.f)]
        return a[0]

    @intr("sea_query::Expr::col")
    def _col(I, a, cc):
        return Agg("sea_query::ColExpr", [col_of(a[0])])

    def _eq(I, a, cc):
        return Agg("sea_query::Cond", [deref_all(a[0]).f[0], a[1]])

    # acts has an `Expr::eq` of its own (store::query): the foreign one must win by its full path
    I.overrides["sea_query::Expr::eq"] = _eq

    @intr("sea_query::Func::count")
    def _count(I, a, cc):
        return Agg("sea_query::Count", [])

    @intr("sea_query::SelectStatement::expr")
    def _sel_expr(I, a, cc):
        if isinstance(deref_all(a[1]), Agg) and deref_all(a[1]).ty == "sea_query::Count":
            st(a[0]).count = True
        return a[0]

    @intr("sea_query::SelectStatement::and_where", "sea_query::UpdateStatement::and_where", "sea_query::DeleteStatement::and_where")
    def _and_where(I, a, cc):
        c = deref_all(a[1])
        st(a[0]).where = (c.f[0], c.f[1])
        return a[0]

    @pat(r"^<sea_query::\w+Statement as sea_query_rusqlite::RusqliteBinder>::build_rusqlite$")
    def _build(I, a, cc):
        s = SqlStr("<sql %s>" % st(a[0]).kind)
        s.stmt = st(a[0])
        return Agg("tuple", [s, Opaque("values")])

    @intr("sea_query_rusqlite::RusqliteValues::as_params")
    def _params(I, a, cc):
        return VecV([])

    @pat(r"^<std::vec::Vec as std::ops::Deref>::deref$")
    def _vec_deref_params(I, a, cc):
        return a[0]

    def sql_of(x):
        x = deref_all(x)
        if not isinstance(x, SqlStr):
            raise Unsupported("sqlite model: SQL text is not a built statement: %r" % (x,))
        return x.stmt

    def rows_matching(s):
        t = DB.setdefault(s.table, {})
        if s.where is None:
            return list(t.keys())
        col, v = s.where
        v = deref_all(v)
        return [k for k, r in t.items() if r.get(col) == v]

    @intr("rusqlite::Connection::execute")
    def _execute(I, a, cc):
        s = sql_of(a[1])
        t = DB.setdefault(s.table, {})
        if s.kind == "insert":
            if len(s.cols) != len(s.vals):
                raise MapperFault("insert lists %d columns and %d values" % (len(s.cols), len(s.vals)))
            row = dict(zip(s.cols, s.vals))
            rid = row.get("Id")
            if rid in t:
                return err(Opaque("rusqlite::Error(unique)"))
            t[rid] = row
            return ok(1)
        if s.kind == "update":
            n = 0
            for k in rows_matching(s):
                for c, v in s.sets:
                    t[k][c] = v
                n += 1
            return ok(n)
        if s.kind == "delete":
            ks = rows_matching(s)
            for k in ks:
                del t[k]
            return ok(len(ks))
        raise Unsupported("sqlite model: execute of " + s.kind)

    @intr("rusqlite::Connection::prepare")
    def _prepare(I, a, cc):
        return ok(Agg("rusqlite::Statement", [sql_of(a[1])]))

    @intr("rusqlite::Statement::query_row")
    def _query_row(I, a, cc):
        s = deref_all(a[0]).f[0]
        ks = rows_matching(s)
        import os
        if os.environ.get("VERIF_SQLITE_DEBUG"):
            print("QUERY_ROW", s.kind, s.table, s.cols, s.where, "tables", {t: list(r.keys()) for t, r in DB.items()}, "match", ks)
        if s.count:
            return I.call_value(a[2], [Ptr([Agg("rusqlite::Row", [{"#count": len(ks)}, None])], 0)], cc.frame)
        if not ks:
            return err(Opaque("rusqlite::Error::QueryReturnedNoRows"))
        row = DB[s.table][ks[0]]
        return I.call_value(a[2], [Ptr([Agg("rusqlite::Row", [row, list(s.cols)])], 0)], cc.frame)

    @intr("rusqlite::Row::get_unwrap", "rusqlite::Row::get")
    def _row_get(I, a, cc):
        r = deref_all(a[0])
        row, cols = r.f[0], r.f[1]
        key = deref_all(a[1])
        if "#count" in row:
            v = row["#count"]
            return v if cc.norm.endswith("get_unwrap") else ok(v)
        if not isinstance(key, str):
            raise Unsupported("sqlite model: positional column access")
        hit = [c for c in row if snake(c) == key]
        if not hit:
            raise MapperFault("from_row reads column %r which create never wrote" % key)
        if hit[0] not in cols:
            raise MapperFault("from_row reads column %r which the select does not list" % key)
        v = row[hit[0]]
        return v if cc.norm.endswith("get_unwrap") else ok(v)


def roundtrip_path(I, res, dtype, prop):
    DB = {}
    register(I, DB)
    mod, cname = COLLS[dtype]
    cx = Ctx(I, res, prop, "sqlite-roundtrip:" + dtype)
    coll = Agg("collection::%s::%s" % (mod, cname), [Opaque("pool")])
    T = "<collection::%s::%s as acts::DbCollection>::" % (mod, cname)
    names = [f[0] for f in fields_of(I, dtype)]

    def call(m, *args):
        try:
            return I.call_raw(T + m, [Ptr([coll], 0)] + list(args), None)
        except MapperFault as e:
            res.violations.append(Violation(prop, "sqlite:%s:%s:mapper" % (dtype, m), "SQLite %s.%s: %s" % (dtype, m, e), "sqlite-roundtrip:" + dtype, dict(decisions=list(I.path.taken)), {}, None))
            raise PathInfeasible("mapper fault reported")

    def compare(expected, got, stage):
        if got.d != 0:
            cx.viol("sqlite:%s:%s:not-found" % (dtype, stage), "SQLite: find after %s failed" % stage)
            return
        for fn, a_, b_ in zip(names, expected.f, got.f[0].f):
            cx.obligation(struct_eq(I, a_, b_), "sqlite:roundtrip:%s:field=%s" % (dtype, fn), "SQLite %s.%s differs after %s: wrote %r, read %r" % (dtype, fn, stage, a_, b_))

    r1 = sym_record(cx, dtype, "a", "k1")
    other = sym_record(cx, dtype, "o", "k0")
    cx.recipe = dict(kind="roundtrip", type=dtype, record=_rec_recipe(I, dtype, r1))
    call("create", Ptr([other], 0))
    call("create", Ptr([r1], 0))
    res.witnesses += 1
    compare(r1, call("find", "k1"), "create")
    r2 = sym_record(cx, dtype, "b", "k1")
    cx.recipe["update"] = _rec_recipe(I, dtype, r2)
    call("update", Ptr([r2], 0))
    compare(r2, call("find", "k1"), "update")
    compare(other, call("find", "k0"), "other")
    ex = call("exists", "k1")
    if not (ex.d == 0 and ex.f[0] is True):
        cx.viol("sqlite:%s:exists:false-for-present" % dtype, "SQLite: exists is not true for a stored record")
    call("delete", "k1")
    gone = call("find", "k1")
    ex = call("exists", "k1")
    if gone.d == 0 or not (ex.d == 0 and ex.f[0] is False):
        cx.viol("sqlite:%s:delete:still-present" % dtype, "SQLite: record still present after delete")
    compare(other, call("find", "k0"), "other-after-delete")
    if len(res.samples) < 2:
        res.samples.append(dict(check="sqlite-roundtrip", type=dtype, columns=sorted(DB and list(DB.values())[0] and list(list(DB.values())[0].values())[0].keys() or [])))


def confirm(v):
    """The same record through the real SQLite store plugin (replay binary with the plugin attached, database file in a scratch directory)."""
    from . import replay
    rc = v.detail
    if not rc or rc.get("kind") != "roundtrip":
        return None, None
    m = v.model or {}
    rec = _concrete(rc["record"], m)
    upd = _concrete(rc.get("update"), m) if rc.get("update") else None
    st = {"op": "store_roundtrip", "type": rc["type"], "record": rec}
    if upd:
        st["update"] = upd
    out = replay.run({"config": {"sqlite": True}, "threads": 2, "models": [], "steps": [st]})
    if "error" in out:
        return None, out
    r = [x for x in out["results"] if x.get("op") == "store_roundtrip"][0]
    roles = set()
    for stage, exp, got in (("create", rec, r.get("found")), ("update", upd, r.get("found_after_update"))):
        if exp is None:
            continue
        if got is None:
            roles.add("sqlite:%s:%s:not-found" % (rc["type"], stage))
            continue
        for k, val in exp.items():
            if got.get(k) != val:
                roles.add("sqlite:roundtrip:%s:field=%s" % (rc["type"], k))
    if r.get("present_after_delete"):
        roles.add("sqlite:%s:delete:still-present" % rc["type"])
    return (v.role in roles), dict(real=r, roles=sorted(roles))


def roundtrip(I, dtype, prop):
    res = explore(I, "sqlite-roundtrip:" + dtype, lambda I, res: roundtrip_path(I, res, dtype, prop), max_paths=50)
    seen = {}
    for v in res.violations:
        if v.role not in seen and len(seen) < 8:
            seen[v.role] = confirm(v)
        if v.role in seen:
            v.confirmed, v.replay = seen[v.role]
    return res
