"""Store-side obligations (C10, C09, C17): the real in-memory collection, query evaluator and message
retry code are executed on symbolic records; the solver decides the obligations."""
import z3

from mirsym.values import *
from mirsym.world import World
from mirsym.harness import Violation, explore
from mirsym.intr_core import struct_eq
from mirsym.intr_serde import jnum, jstr, jbool

DATA = {
    "Model": "store::data::model::Model",
    "Proc": "store::data::proc::Proc",
    "Task": "store::data::task::Task",
    "Message": "store::data::message::Message",
    "Package": "store::data::package::Package",
    "Event": "store::data::event::Event",
}
OPS = ["EQ", "NE", "LT", "LE", "GT", "GE"]


class Ctx:
    def __init__(self, I, res, prop, name):
        self.I = I
        self.res = res
        self.prop = prop
        self.name = name
        self.sym = {}
        self.W = World(I)  # installs clock / id models; no engine is booted

    def viol(self, role, desc, cond=None, detail=None):
        I = self.I
        if detail is None:
            detail = getattr(self, "recipe", None)
        m = I.model(cond) if cond is not None else I.model()
        model = {}
        if m is not None:
            for k, v in self.sym.items():
                model[k] = str(m.eval(v, model_completion=True))
        v = Violation(self.prop, role, desc, self.name, dict(decisions=list(I.path.taken), tags=list(I.path.tags)), model, detail)
        self.res.violations.append(v)
        return v

    def int(self, name, lo, hi):
        v = z3.Int(name)
        self.sym[name] = v
        self.I.assume(z3.And(v >= lo, v <= hi))
        return v

    def collect(self, dtype):
        I = self.I
        c = I.call_raw("store::db::mem::collect::Collect::<%s>::new" % DATA[dtype], [dtype.lower() + "s"], None)
        return c

    def coll_call(self, c, dtype, method, *args):
        return self.I.call_raw("<store::db::mem::collect::Collect<%s> as store::DbCollection>::%s" % (DATA[dtype], method), [Ptr([c], 0)] + list(args), None)

    def obligation(self, cond, role, desc, detail=None):
        """cond must hold on every model of the path condition."""
        self.res.obligations += 1
        I = self.I
        if cond is True:
            return True
        if cond is False:
            self.viol(role, desc, None, detail)
            return False
        neg = z3.Not(cond)
        if I.check_sat(neg):
            self.viol(role, desc, neg, detail)
            return False
        return True


def _name(x):
    if is_sym(x):
        return {"$var": str(x)}
    return x


def fields_of(I, dtype):
    return I.p.src.struct_fields(DATA[dtype])


def sym_record(cx, dtype, tag, rid):
    """A record whose integer fields are symbolic and whose string fields are pairwise distinct."""
    I = cx.I
    vals = []
    for fn, ft, fa in fields_of(I, dtype):
        ft = ft.strip()
        if fn == "id":
            vals.append(rid)
        elif ft == "String":
            vals.append("%s.%s.%s" % (tag, rid, fn))
        elif ft in ("i64", "i32", "i8", "u32", "usize"):
            vals.append(cx.int("%s_%s_%s" % (tag, rid, fn), 0, 1000))
        elif ft == "bool":
            b = z3.Bool("%s_%s_%s" % (tag, rid, fn))
            cx.sym["%s_%s_%s" % (tag, rid, fn)] = b
            vals.append(b)
        elif ft == "Option<String>":
            if tag == "o" or I.path.choose(2, "opt-" + fn) == 0:
                vals.append(some("%s.%s.%s" % (tag, rid, fn)))
            else:
                vals.append(none())
        elif ft == "MessageState":
            vs = I.p.src.enum_def("event::message::MessageState")
            k = I.path.choose(len(vs), "mstate") if tag == "a" else 0
            vals.append(Enum("MessageState", vs[k][1], [], vs[k][0]))
        elif ft == "MessageStatus":
            d = cx.int("%s_%s_%s" % (tag, rid, fn), 0, 3)
            vals.append(Enum("MessageStatus", d, [], None))
        elif ft in ("ActRunAs", "ActPackageCatalog"):
            vs = I.p.src.enum_def(ft)
            k = I.path.choose(len(vs), ft) if tag == "a" else 0
            vals.append(Enum(ft, vs[k][1], [], vs[k][0]))
        else:
            raise Unsupported("sym_record: field %s: %s" % (fn, ft))
    return Agg(DATA[dtype], vals)


# ---------------------------------------------------------------------------------------------------
# C10 (a) record round trip on the memory backend


def roundtrip_path(I, res, dtype, prop):
    cx = Ctx(I, res, prop, "roundtrip:" + dtype)
    c = cx.collect(dtype)
    r1 = sym_record(cx, dtype, "a", "k1")
    other = sym_record(cx, dtype, "o", "k0")
    cx.coll_call(c, dtype, "create", Ptr([other], 0))
    ok1 = cx.coll_call(c, dtype, "create", Ptr([r1], 0))
    got = cx.coll_call(c, dtype, "find", "k1")
    res.witnesses += 1
    names = [f[0] for f in fields_of(I, dtype)]

    def compare(expected, got, stage):
        if got.d != 0:
            cx.viol("%s:%s:not-found" % (dtype, stage), "find after %s failed" % stage)
            return
        g = got.f[0]
        for fn, a, b in zip(names, expected.f, g.f):
            eq = struct_eq(I, a, b)
            cx.obligation(eq, "roundtrip:%s:field=%s" % (dtype, fn), "%s.%s differs after %s: wrote %r, read %r" % (dtype, fn, stage, a, b))

    cx.recipe = dict(kind="roundtrip", type=dtype, record=_rec_recipe(I, dtype, r1))
    compare(r1, got, "create")
    # update replaces every field
    r2 = sym_record(cx, dtype, "b", "k1")
    cx.recipe["update"] = _rec_recipe(I, dtype, r2)
    cx.coll_call(c, dtype, "update", Ptr([r2], 0))
    compare(r2, cx.coll_call(c, dtype, "find", "k1"), "update")
    # the other record is untouched
    compare(other, cx.coll_call(c, dtype, "find", "k0"), "other")
    # delete removes it (and only it)
    cx.coll_call(c, dtype, "delete", "k1")
    gone = cx.coll_call(c, dtype, "find", "k1")
    ex = cx.coll_call(c, dtype, "exists", "k1")
    if gone.d == 0 or (ex.d == 0 and ex.f[0] is not False):
        cx.viol("%s:delete:still-present" % dtype, "record still present after delete")
    compare(other, cx.coll_call(c, dtype, "find", "k0"), "other-after-delete")
    if len(res.samples) < 2:
        res.samples.append(dict(check="roundtrip", type=dtype, record=repr(r1)[:300]))


def roundtrip(I, dtype, prop):
    return confirm_all(explore(I, "roundtrip:" + dtype, lambda I, res: roundtrip_path(I, res, dtype, prop), max_paths=400))


# ---------------------------------------------------------------------------------------------------
# C10 (b) query semantics on the memory backend (Model collection: columns ver, size are symbolic ints)

COLS = ["ver", "size"]


def mk_expr(cx, tag):
    I = cx.I
    opd = cx.int("op_" + tag, 0, 5)
    key = COLS[I.path.choose(len(COLS), "key")]
    val = cx.int("val_" + tag, 0, 6)
    e = Agg("store::query::Expr", [Enum("ExprOp", opd, [], None), key, jnum(val)])
    return e, (opd, key, val)


def op_formula(opd, l, r):
    return z3.Or(z3.And(opd == 0, l == r), z3.And(opd == 1, l != r), z3.And(opd == 2, l < r), z3.And(opd == 3, l <= r),
                 z3.And(opd == 4, l > r), z3.And(opd == 5, l >= r))


def query_path(I, res, prop, shape):
    nrows, nconds, nexprs, with_order, paging = shape
    cx = Ctx(I, res, prop, "query:%s" % (shape,))
    c = cx.collect("Model")
    rows = []
    for i in range(nrows):
        rid = "r%d" % i
        rec = sym_record(cx, "Model", "q", rid)
        rows.append((rid, rec))
        cx.coll_call(c, "Model", "create", Ptr([rec], 0))
    fidx = {f[0]: i for i, f in enumerate(fields_of(I, "Model"))}
    # build the query through the real builder API
    q = I.call_raw("store::query::Query::new", [], None)
    ref_conds = []
    for ci in range(nconds):
        ctd = cx.int("ctype_%d" % ci, 0, 1)  # 0 = And, 1 = Or
        cond = Agg("store::query::Cond", [Enum("CondType", ctd, [], None), VecV([]), MapV(False, "HashSet")])
        exprs = []
        for ei in range(nexprs):
            e, meta = mk_expr(cx, "%d_%d" % (ci, ei))
            cond = I.call_raw("store::query::Cond::push", [cond, e], None)
            exprs.append(meta)
        q = I.call_raw("store::query::Query::push", [q, cond], None)
        ref_conds.append((ctd, exprs))
    order_key = None
    rev = False
    if with_order:
        order_key = COLS[I.path.choose(len(COLS), "order-key")]
        rev = I.path.choose(2, "rev") == 1
        q = I.call_raw("store::query::Query::push_order", [q, order_key, rev], None)
    offset, limit = 0, None
    if paging:
        offset = I.path.choose(3, "offset")
        limit = 1 + I.path.choose(3, "limit")
        q = I.call_raw("store::query::Query::set_offset", [q, offset], None)
        q = I.call_raw("store::query::Query::set_limit", [q, limit], None)
    names = [f[0] for f in fields_of(I, "Model")]
    cx.recipe = dict(kind="query", rows=[{fn: _name(x) for fn, x in zip(names, rec.f)} for rid, rec in rows],
                     conds=[dict(type=_name(ctd), exprs=[dict(op=_name(o), key=k, value=_name(v)) for o, k, v in exprs]) for ctd, exprs in ref_conds],
                     order=[[order_key, rev]] if with_order else [], offset=offset if paging else None, limit=limit if paging else None)
    r = cx.coll_call(c, "Model", "query", Ptr([q], 0))
    res.witnesses += 1
    if r.d != 0:
        cx.viol("query:error", "query returned an error: %r" % (r.f[0],))
        return
    page = r.f[0]
    pf = {f[0]: i for i, f in enumerate(I.p.src.struct_fields("PageData"))}
    got_rows = page.f[pf["rows"]].a
    got_ids = [g.f[fidx["id"]] for g in got_rows]
    count = page.f[pf["count"]]

    # reference filter, written directly as a formula over the symbolic columns
    def sat(rec):
        cs = []
        for ctd, exprs in ref_conds:
            es = [op_formula(opd, rec.f[fidx[key]], val) for opd, key, val in exprs]
            cs.append(z3.If(ctd == 0, z3.And(*es), z3.Or(*es)))
        return z3.And(*cs) if cs else z3.BoolVal(True)

    sats = {rid: sat(rec) for rid, rec in rows}
    recs = dict(rows)
    shape_tag = "conds=%d,exprs=%d" % (nconds, nexprs)
    if not paging:
        for rid, rec in rows:
            inres = rid in got_ids
            f = sats[rid] if inres else z3.Not(sats[rid])
            cx.obligation(f, "query:filter:%s:%s" % (shape_tag, "spurious-row" if inres else "missing-row"),
                          "row %s is %s the result but the filter says otherwise" % (rid, "in" if inres else "not in"))
    # count = true total
    total = z3.Sum([z3.If(sats[rid], 1, 0) for rid, _ in rows])
    cx.obligation(total == count, "query:count:%s" % shape_tag, "count=%r differs from the number of matching rows" % (count,))
    if with_order:
        keys = [recs[i].f[fidx[order_key]] for i in got_ids]
        for a, b in zip(keys, keys[1:]):
            cx.obligation((a >= b) if rev else (a <= b), "query:order:numeric:%s" % ("desc" if rev else "asc"),
                          "rows are not ordered numerically by %s" % order_key)
    if paging:
        lim = limit
        cx.obligation(page.f[pf["page_size"]] == lim, "query:page_size", "page_size")
        # page_count = ceil(count / limit), page_num = offset / limit + 1
        cx.obligation(z3.And(page.f[pf["page_count"]] * lim >= total, (page.f[pf["page_count"]] - 1) * lim < z3.If(total == 0, 1, total)) if True else True,
                      "query:page_count", "page_count=%r" % (page.f[pf["page_count"]],))
        cx.obligation(page.f[pf["page_num"]] == offset // lim + 1, "query:page_num", "page_num")
        # number of rows returned = min(limit, max(0, total - offset))
        n = len(got_ids)
        exp = z3.If(total - offset < 0, 0, z3.If(total - offset < lim, total - offset, lim))
        cx.obligation(exp == n, "query:page-window", "returned %d rows for offset=%d limit=%d" % (n, offset, lim))
        for rid in got_ids:
            cx.obligation(sats[rid], "query:filter:%s:spurious-row" % shape_tag, "row %s returned but does not satisfy the filter" % rid)
    if len(res.samples) < 2:
        res.samples.append(dict(check="query", shape=shape, result=got_ids, decisions=list(I.path.taken)))


def query(I, prop, shape, max_paths, part=None):
    r = explore(I, "query:%s" % (shape,), lambda I, res: query_path(I, res, prop, shape), max_paths=max_paths, part=part)
    if part:
        r.name += "[%d/%d]" % part
    return confirm_all(r)


def _rec_recipe(I, dtype, rec):
    out = {}
    for (fn, ft, fa), x in zip(fields_of(I, dtype), rec.f):
        if isinstance(x, Enum):
            if x.ty == "Option":
                out[fn] = _name(x.f[0]) if x.d == 1 else None
            elif x.ty == "MessageStatus":
                out[fn] = _name(x.d)
            else:
                from mirsym.intr_serde import to_json, json_to_py
                out[fn] = json_to_py(to_json(I, x))
        else:
            out[fn] = _name(x)
    return out


def _concrete(x, model):
    if isinstance(x, dict) and "$var" in x:
        v = model.get(x["$var"], "0")
        if v in ("True", "False"):
            return v == "True"
        return int(v)
    if isinstance(x, dict):
        return {k: _concrete(v, model) for k, v in x.items()}
    if isinstance(x, list):
        return [_concrete(v, model) for v in x]
    return x


def confirm(v):
    """Replay a store counterexample on the real memory backend (through the engine's registered collections)."""
    from . import replay
    rc = v.detail
    if not rc:
        return None, None
    m = v.model or {}
    if rc["kind"] == "query":
        rows = _concrete(rc["rows"], m)
        q = _concrete(dict(conds=rc["conds"], order=rc["order"], offset=rc["offset"], limit=rc["limit"]), m)
        for c in q["conds"]:
            c["type"] = "or" if c["type"] == 1 else "and"
            for e in c["exprs"]:
                e["op"] = OPS[e["op"]]
        sc = {"config": {}, "threads": 2, "models": [], "steps": [{"op": "store_query", "rows": rows, "query": q}]}
        out = replay.run(sc)
        if "error" in out:
            return None, out
        r = [x for x in out["results"] if x.get("op") == "store_query"][0]
        if not r.get("ok"):
            return ("query:error" == v.role), r
        # concrete reference
        def op(o, l, rr):
            return {"EQ": l == rr, "NE": l != rr, "LT": l < rr, "LE": l <= rr, "GT": l > rr, "GE": l >= rr}[o]

        def sat(row):
            res = True
            for c in q["conds"]:
                es = [op(e["op"], row[e["key"]], e["value"]) for e in c["exprs"]]
                res = res and (all(es) if c["type"] == "and" else any(es))
            return res

        by_id = {x["id"]: x for x in rows}
        roles = set()
        match = [x["id"] for x in rows if sat(x)]
        shape_tag = "conds=%d,exprs=%d" % (len(q["conds"]), len(q["conds"][0]["exprs"]) if q["conds"] else 0)
        if q["limit"] is None:
            for x in rows:
                if (x["id"] in r["ids"]) != (x["id"] in match):
                    roles.add("query:filter:%s:%s" % (shape_tag, "spurious-row" if x["id"] in r["ids"] else "missing-row"))
        if r["count"] != len(match):
            roles.add("query:count:%s" % shape_tag)
        for o in q["order"]:
            ks = [by_id[i][o[0]] for i in r["ids"]]
            if any((a < b) if o[1] else (a > b) for a, b in zip(ks, ks[1:])):
                roles.add("query:order:numeric:%s" % ("desc" if o[1] else "asc"))
        if q["limit"] is not None:
            lim, off = q["limit"], q["offset"]
            if r["page_size"] != lim:
                roles.add("query:page_size")
            if r["page_count"] != -(-len(match) // lim):
                roles.add("query:page_count")
            if r["page_num"] != off // lim + 1:
                roles.add("query:page_num")
            if len(r["ids"]) != max(0, min(lim, len(match) - off)):
                roles.add("query:page-window")
            if any(i not in match for i in r["ids"]):
                roles.add("query:filter:%s:spurious-row" % shape_tag)
        return (v.role in roles), dict(real=r, roles=sorted(roles), scenario=sc["steps"][0])
    if rc["kind"] == "roundtrip":
        rec = _concrete(rc["record"], m)
        upd = _concrete(rc.get("update"), m) if rc.get("update") else None
        st = {"op": "store_roundtrip", "type": rc["type"], "record": rec}
        if upd:
            st["update"] = upd
        sc = {"config": {}, "threads": 2, "models": [], "steps": [st]}
        out = replay.run(sc)
        if "error" in out:
            return None, out
        r = [x for x in out["results"] if x.get("op") == "store_roundtrip"][0]
        roles = set()
        for stage, exp, got in (("create", rec, r.get("found")), ("update", upd, r.get("found_after_update"))):
            if exp is None:
                continue
            if got is None:
                roles.add("%s:%s:not-found" % (rc["type"], stage))
                continue
            for k, val in exp.items():
                if got.get(k) != val:
                    roles.add("roundtrip:%s:field=%s" % (rc["type"], k))
        if r.get("present_after_delete"):
            roles.add("%s:delete:still-present" % rc["type"])
        return (v.role in roles), dict(real=r, roles=sorted(roles))
    return None, None


def confirm_all(res):
    seen = {}
    for v in res.violations:
        if v.role in seen:
            v.confirmed, v.replay = seen[v.role]
            continue
        if len(seen) >= 10:
            continue
        okc, info = confirm(v)
        v.confirmed, v.replay = okc, info
        seen[v.role] = (okc, info)
    return res
