"""Store-side obligations (C10, C09, C17): the real in-memory collection, query evaluator and message
retry code are executed on symbolic records; the solver decides the obligations."""
import z3

from mirsym.values import *
from mirsym.world import World
from mirsym.harness import Violation, explore
from mirsym.intr_core import struct_eq
from mirsym.intr_serde import jnum, jstr, jbool

DATA = {
    "Model": "store::data::model::Model",
    "Proc": "store::data::proc::Proc",
    "Task": "store::data::task::Task",
    "Message": "store::data::message::Message",
    "Package": "store::data::package::Package",
    "Event": "store::data::event::Event",
}
OPS = ["EQ", "NE", "LT", "LE", "GT", "GE"]


class Ctx:
    def __init__(self, I, res, prop, name):
        self.I = I
        self.res = res
        self.prop = prop
        self.name = name
        self.sym = {}
        self.W = World(I)  # installs clock / id models; no engine is booted

    def viol(self, role, desc, cond=None, detail=None):
        I = self.I
        if detail is None:
            detail = getattr(self, "recipe", None)
        m = I.model(cond) if cond is not None else I.model()
        model = {}
        if m is not None:
            for k, v in self.sym.items():
                model[k] = str(m.eval(v, model_completion=True))
        v = Violation(self.prop, role, desc, self.name, dict(decisions=list(I.path.taken), tags=list(I.path.tags)), model, detail)
        self.res.violations.append(v)
        return v

    def int(self, name, lo, hi):
        v = z3.Int(name)
        self.sym[name] = v
        self.I.assume(z3.And(v >= lo, v <= hi))
        return v

    def collect(self, dtype):
        I = self.I
        c = I.call_raw("store::db::mem::collect::Collect::<%s>::new" % DATA[dtype], [dtype.lower() + "s"], None)
        return c

    def coll_call(self, c, dtype, method, *args):
        return self.I.call_raw("<store::db::mem::collect::Collect<%s> as store::DbCollection>::%s" % (DATA[dtype], method), [Ptr([c], 0)] + list(args), None)

    def obligation(self, cond, role, desc, detail=None):
        """cond must hold on every model of the path condition."""
        self.res.obligations += 1
        I = self.I
        if cond is True:
            return True
        if cond is False:
            self.viol(role, desc, None, detail)
            return False
        neg = z3.Not(cond)
        if I.check_sat(neg):
            self.viol(role, desc, neg, detail)
            return False
        return True


def _name(x):
    if is_sym(x):
        return {"$var": str(x)}
    return x


def fields_of(I, dtype):
    return I.p.src.struct_fields(DATA[dtype])


def sym_record(cx, dtype, tag, rid):
    """A record whose integer fields are symbolic and whose string fields are pairwise distinct."""
    I = cx.I
    vals = []
    for fn, ft, fa in fields_of(I, dtype):
        ft = ft.strip()
        if fn == "id":
            vals.append(rid)
        elif ft == "String":
            vals.append("%s.%s.%s" % (tag, rid, fn))
        elif ft in ("i64", "i32", "i8", "u32", "usize"):
            vals.append(cx.int("%s_%s_%s" % (tag, rid, fn), 0, 1000))
        elif ft == "bool":
            b = z3.Bool("%s_%s_%s" % (tag, rid, fn))
            cx.sym["%s_%s_%s" % (tag, rid, fn)] = b
            vals.append(b)
        elif ft == "Option<String>":
            if tag == "o" or I.path.choose(2, "opt-" + fn) == 0:
                vals.append(some("%s.%s.%s" % (tag, rid, fn)))
            else:
                vals.append(none())
        elif ft == "MessageState":
            vs = I.p.src.enum_def("event::message::MessageState")
            k = I.path.choose(len(vs), "mstate") if tag == "a" else 0
            vals.append(Enum("MessageState", vs[k][1], [], vs[k][0]))
        elif ft == "MessageStatus":
            d = cx.int("%s_%s_%s" % (tag, rid, fn), 0, 3)
            vals.append(Enum("MessageStatus", d, [], None))
        elif ft in ("ActRunAs", "ActPackageCatalog"):
            vs = I.p.src.enum_def(ft)
            k = I.path.choose(len(vs), ft) if tag == "a" else 0
            vals.append(Enum(ft, vs[k][1], [], vs[k][0]))
        else:
            raise Unsupported("sym_record: field %s: %s" % (fn, ft))
    return Agg(DATA[dtype], vals)


# ---------------------------------------------------------------------------------------------------
# C10 (a) record round trip on the memory backend


def roundtrip_path(I, res, dtype, prop):
    cx = Ctx(I, res, prop, "roundtrip:" + dtype)
    c = cx.collect(dtype)
    r1 = sym_record(cx, dtype, "a", "k1")
    other = sym_record(cx, dtype, "o", "k0")
    cx.coll_call(c, dtype, "create", Ptr([other], 0))
    ok1 = cx.coll_call(c, dtype, "create", Ptr([r1], 0))
    got = cx.coll_call(c, dtype, "find", "k1")
    res.witnesses += 1
    names = [f[0] for f in fields_of(I, dtype)]

    def compare(expected, got, stage):
        if got.d != 0:
            cx.viol("%s:%s:not-found" % (dtype, stage), "find after %s failed" % stage)
            return
        g = got.f[0]
        for fn, a, b in zip(names, expected.f, g.f):
            eq = struct_eq(I, a, b)
            cx.obligation(eq, "roundtrip:%s:field=%s" % (dtype, fn), "%s.%s differs after %s: wrote %r, read %r" % (dtype, fn, stage, a, b))

    cx.recipe = dict(kind="roundtrip", type=dtype, record=_rec_recipe(I, dtype, r1))
    compare(r1, got, "create")
    # update replaces every field
    r2 = sym_record(cx, dtype, "b", "k1")
    cx.recipe["update"] = _rec_recipe(I, dtype, r2)
    cx.coll_call(c, dtype, "update", Ptr([r2], 0))
    compare(r2, cx.coll_call(c, dtype, "find", "k1"), "update")
    # the other record is untouched
    compare(other, cx.coll_call(c, dtype, "find", "k0"), "other")
    # delete removes it (and only it)
    cx.coll_call(c, dtype, "delete", "k1")
    gone = cx.coll_call(c, dtype, "find", "k1")
    ex = cx.coll_call(c, dtype, "exists", "k1")
    if gone.d == 0 or (ex.d == 0 and ex.f[0] is not False):
        cx.viol("%s:delete:still-present" % dtype, "record still present after delete")
    compare(other, cx.coll_call(c, dtype, "find", "k0"), "other-after-delete")
    # an update of a record that is not there (any more) does not create it: what SQL's UPDATE .. WHERE id = ? does
    cx.coll_call(c, dtype, "update", Ptr([r1], 0))
    back = cx.coll_call(c, dtype, "find", "k1")
    ex = cx.coll_call(c, dtype, "exists", "k1")
    if back.d == 0 or (ex.d == 0 and ex.f[0] is not False):
        cx.viol("%s:update:creates-missing-record" % dtype, "update of a deleted record brought it back")
    if len(res.samples) < 2:
        res.samples.append(dict(check="roundtrip", type=dtype, record=repr(r1)[:300]))


def roundtrip(I, dtype, prop):
    return confirm_all(explore(I, "roundtrip:" + dtype, lambda I, res: roundtrip_path(I, res, dtype, prop), max_paths=400))


# ---------------------------------------------------------------------------------------------------
# C10 (b) query semantics on the memory backend (Model collection: columns ver, size are symbolic ints)

COLS = ["ver", "size"]


def mk_expr(cx, tag):
    I = cx.I
    opd = cx.int("op_" + tag, 0, 5)
    key = COLS[I.path.choose(len(COLS), "key")]
    val = cx.int("val_" + tag, 0, 6)
    e = Agg("store::query::Expr", [Enum("ExprOp", opd, [], None), key, jnum(val)])
    return e, (opd, key, val)


def op_formula(opd, l, r):
    return z3.Or(z3.And(opd == 0, l == r), z3.And(opd == 1, l != r), z3.And(opd == 2, l < r), z3.And(opd == 3, l <= r),
                 z3.And(opd == 4, l > r), z3.And(opd == 5, l >= r))


def query_path(I, res, prop, shape):
    nrows, nconds, nexprs, with_order, paging = shape
    cx = Ctx(I, res, prop, "query:%s" % (shape,))
    c = cx.collect("Model")
    rows = []
    for i in range(nrows):
        rid = "r%d" % i
        rec = sym_record(cx, "Model", "q", rid)
        rows.append((rid, rec))
        cx.coll_call(c, "Model", "create", Ptr([rec], 0))
    fidx = {f[0]: i for i, f in enumerate(fields_of(I, "Model"))}
    # build the query through the real builder API
    q = I.call_raw("store::query::Query::new", [], None)
    ref_conds = []
    for ci in range(nconds):
        ctd = cx.int("ctype_%d" % ci, 0, 1)  # 0 = And, 1 = Or
        cond = Agg("store::query::Cond", [Enum("CondType", ctd, [], None), VecV([]), MapV(False, "HashSet")])
        exprs = []
        for ei in range(nexprs):
            e, meta = mk_expr(cx, "%d_%d" % (ci, ei))
            cond = I.call_raw("store::query::Cond::push", [cond, e], None)
            exprs.append(meta)
        q = I.call_raw("store::query::Query::push", [q, cond], None)
        ref_conds.append((ctd, exprs))
    order_key = None
    rev = False
    orders = []
    if with_order:
        first = I.path.choose(len(COLS), "order-key")
        ks = [COLS[first]] + ([COLS[1 - first]] if with_order >= 2 else [])
        for ok_ in ks:
            rv = I.path.choose(2, "rev") == 1
            orders.append((ok_, rv))
            q = I.call_raw("store::query::Query::push_order", [q, ok_, rv], None)
        order_key, rev = orders[0]
    offset, limit = 0, None
    if paging:
        offset = I.path.choose(3, "offset")
        limit = 1 + I.path.choose(3, "limit")
        q = I.call_raw("store::query::Query::set_offset", [q, offset], None)
        q = I.call_raw("store::query::Query::set_limit", [q, limit], None)
    names = [f[0] for f in fields_of(I, "Model")]
    cx.recipe = dict(kind="query", rows=[{fn: _name(x) for fn, x in zip(names, rec.f)} for rid, rec in rows],
                     conds=[dict(type=_name(ctd), exprs=[dict(op=_name(o), key=k, value=_name(v)) for o, k, v in exprs]) for ctd, exprs in ref_conds],
                     order=[[a, b] for a, b in orders], offset=offset if paging else None, limit=limit if paging else None)
    r = cx.coll_call(c, "Model", "query", Ptr([q], 0))
    res.witnesses += 1
    if r.d != 0:
        cx.viol("query:error", "query returned an error: %r" % (r.f[0],))
        return
    page = r.f[0]
    pf = {f[0]: i for i, f in enumerate(I.p.src.struct_fields("PageData"))}
    got_rows = page.f[pf["rows"]].a
    got_ids = [g.f[fidx["id"]] for g in got_rows]
    count = page.f[pf["count"]]

    # reference filter, written directly as a formula over the symbolic columns
    def sat(rec):
        cs = []
        for ctd, exprs in ref_conds:
            es = [op_formula(opd, rec.f[fidx[key]], val) for opd, key, val in exprs]
            cs.append(z3.If(ctd == 0, z3.And(*es), z3.Or(*es)))
        return z3.And(*cs) if cs else z3.BoolVal(True)

    sats = {rid: sat(rec) for rid, rec in rows}
    recs = dict(rows)
    shape_tag = "conds=%d,exprs=%d" % (nconds, nexprs)
    if not paging:
        for rid, rec in rows:
            inres = rid in got_ids
            f = sats[rid] if inres else z3.Not(sats[rid])
            cx.obligation(f, "query:filter:%s:%s" % (shape_tag, "spurious-row" if inres else "missing-row"),
                          "row %s is %s the result but the filter says otherwise" % (rid, "in" if inres else "not in"))
    # count = true total
    total = z3.Sum([z3.If(sats[rid], 1, 0) for rid, _ in rows])
    cx.obligation(total == count, "query:count:%s" % shape_tag, "count=%r differs from the number of matching rows" % (count,))
    if with_order:
        for ia, ib in zip(got_ids, got_ids[1:]):
            # lexicographic order over the requested keys, each in its own direction
            f = z3.BoolVal(True)
            for ok_, rv in reversed(orders):
                a, b = recs[ia].f[fidx[ok_]], recs[ib].f[fidx[ok_]]
                lt = (a > b) if rv else (a < b)
                f = z3.Or(lt, z3.And(a == b, f))
            cx.obligation(f, "query:order:%s" % ("numeric:" + ("desc" if rev else "asc") if len(orders) == 1 else "multi-key:" + ",".join("desc" if r else "asc" for _, r in orders)),
                          "rows are not ordered by %s" % (orders,))
    if paging:
        lim = limit
        cx.obligation(page.f[pf["page_size"]] == lim, "query:page_size", "page_size")
        # page_count = ceil(count / limit), page_num = offset / limit + 1
        cx.obligation(z3.And(page.f[pf["page_count"]] * lim >= total, (page.f[pf["page_count"]] - 1) * lim < z3.If(total == 0, 1, total)) if True else True,
                      "query:page_count", "page_count=%r" % (page.f[pf["page_count"]],))
        cx.obligation(page.f[pf["page_num"]] == offset // lim + 1, "query:page_num", "page_num")
        # number of rows returned = min(limit, max(0, total - offset))
        n = len(got_ids)
        exp = z3.If(total - offset < 0, 0, z3.If(total - offset < lim, total - offset, lim))
        cx.obligation(exp == n, "query:page-window", "returned %d rows for offset=%d limit=%d" % (n, offset, lim))
        for rid in got_ids:
            cx.obligation(sats[rid], "query:filter:%s:spurious-row" % shape_tag, "row %s returned but does not satisfy the filter" % rid)
        if with_order:
            # the page is the window [offset, offset+limit) of the ORDERED matching rows: the j-th returned row has at most offset+j matching
            # rows strictly before it and at least offset+j+1 matching rows not after it (ties may fall either way)
            def lt(ra, rb):
                f = z3.BoolVal(False)
                for ok_, rv in reversed(orders):
                    a, b = ra.f[fidx[ok_]], rb.f[fidx[ok_]]
                    f = z3.Or((a > b) if rv else (a < b), z3.And(a == b, f))
                return f

            def eqk(ra, rb):
                return z3.And(*[ra.f[fidx[ok_]] == rb.f[fidx[ok_]] for ok_, rv in orders])

            for j, gid in enumerate(got_ids):
                g = recs[gid]
                n_lt = z3.Sum([z3.If(z3.And(sats[rid], lt(rec, g)), 1, 0) for rid, rec in rows if rid != gid] + [z3.IntVal(0)])
                n_le = z3.Sum([z3.If(z3.And(sats[rid], z3.Or(lt(rec, g), eqk(rec, g))), 1, 0) for rid, rec in rows])
                cx.obligation(z3.And(n_lt <= offset + j, n_le >= offset + j + 1), "query:page-window-of-ordered-rows",
                              "row %s is returned at position %d of the page (offset %d) but that is not its place among the ordered matching rows" % (gid, j, offset))
    if len(res.samples) < 2:
        res.samples.append(dict(check="query", shape=shape, result=got_ids, decisions=list(I.path.taken)))


def query(I, prop, shape, max_paths, part=None):
    r = explore(I, "query:%s" % (shape,), lambda I, res: query_path(I, res, prop, shape), max_paths=max_paths, part=part)
    if part:
        r.name += "[%d/%d]" % part
    return confirm_all(r)


def _rec_recipe(I, dtype, rec):
    out = {}
    for (fn, ft, fa), x in zip(fields_of(I, dtype), rec.f):
        if isinstance(x, Enum):
            if x.ty == "Option":
                out[fn] = _name(x.f[0]) if x.d == 1 else None
            elif x.ty == "MessageStatus":
                out[fn] = _name(x.d)
            else:
                from mirsym.intr_serde import to_json, json_to_py
                out[fn] = json_to_py(to_json(I, x))
        else:
            out[fn] = _name(x)
    return out


def _concrete(x, model):
    if isinstance(x, dict) and "$var" in x:
        v = model.get(x["$var"], "0")
        if v in ("True", "False"):
            return v == "True"
        return int(v)
    if isinstance(x, dict):
        return {k: _concrete(v, model) for k, v in x.items()}
    if isinstance(x, list):
        return [_concrete(v, model) for v in x]
    return x


def confirm(v):
    """Replay a store counterexample on the real memory backend (through the engine's registered collections)."""
    from . import replay
    rc = v.detail
    if not rc:
        return None, None
    m = v.model or {}
    if rc["kind"] == "query":
        rows = _concrete(rc["rows"], m)
        q = _concrete(dict(conds=rc["conds"], order=rc["order"], offset=rc["offset"], limit=rc["limit"]), m)
        for c in q["conds"]:
            c["type"] = "or" if c["type"] == 1 else "and"
            for e in c["exprs"]:
                e["op"] = OPS[e["op"]]
        sc = {"config": {}, "threads": 2, "models": [], "steps": [{"op": "store_query", "rows": rows, "query": q}]}
        out = replay.run(sc)
        if "error" in out:
            return None, out
        r = [x for x in out["results"] if x.get("op") == "store_query"][0]
        if not r.get("ok"):
            return ("query:error" == v.role), r
        # concrete reference
        def op(o, l, rr):
            return {"EQ": l == rr, "NE": l != rr, "LT": l < rr, "LE": l <= rr, "GT": l > rr, "GE": l >= rr}[o]

        def sat(row):
            res = True
            for c in q["conds"]:
                es = [op(e["op"], row[e["key"]], e["value"]) for e in c["exprs"]]
                res = res and (all(es) if c["type"] == "and" else any(es))
            return res

        by_id = {x["id"]: x for x in rows}
        roles = set()
        match = [x["id"] for x in rows if sat(x)]
        shape_tag = "conds=%d,exprs=%d" % (len(q["conds"]), len(q["conds"][0]["exprs"]) if q["conds"] else 0)
        if q["limit"] is None:
            for x in rows:
                if (x["id"] in r["ids"]) != (x["id"] in match):
                    roles.add("query:filter:%s:%s" % (shape_tag, "spurious-row" if x["id"] in r["ids"] else "missing-row"))
        if r["count"] != len(match):
            roles.add("query:count:%s" % shape_tag)
        if q["order"]:
            def keyf(i):
                return tuple((-by_id[i][o[0]]) if o[1] else by_id[i][o[0]] for o in q["order"])
            ks = [keyf(i) for i in r["ids"]]
            if any(a > b for a, b in zip(ks, ks[1:])):
                o = q["order"]
                roles.add("query:order:%s" % ("numeric:" + ("desc" if o[0][1] else "asc") if len(o) == 1 else "multi-key:" + ",".join("desc" if x[1] else "asc" for x in o)))
        if q["limit"] is not None:
            lim, off = q["limit"], q["offset"]
            if r["page_size"] != lim:
                roles.add("query:page_size")
            if r["page_count"] != -(-len(match) // lim):
                roles.add("query:page_count")
            if r["page_num"] != off // lim + 1:
                roles.add("query:page_num")
            if len(r["ids"]) != max(0, min(lim, len(match) - off)):
                roles.add("query:page-window")
            if any(i not in match for i in r["ids"]):
                roles.add("query:filter:%s:spurious-row" % shape_tag)
            if q["order"]:
                def keyf2(i):
                    return tuple((-by_id[i][o[0]]) if o[1] else by_id[i][o[0]] for o in q["order"])
                for j, gid in enumerate(r["ids"]):
                    n_lt = len([i for i in match if i != gid and keyf2(i) < keyf2(gid)])
                    n_le = len([i for i in match if keyf2(i) <= keyf2(gid)])
                    if not (n_lt <= off + j and n_le >= off + j + 1):
                        roles.add("query:page-window-of-ordered-rows")
        return (v.role in roles), dict(real=r, roles=sorted(roles), scenario=sc["steps"][0])
    if rc["kind"] == "roundtrip":
        rec = _concrete(rc["record"], m)
        upd = _concrete(rc.get("update"), m) if rc.get("update") else None
        st = {"op": "store_roundtrip", "type": rc["type"], "record": rec}
        if upd:
            st["update"] = upd
        sc = {"config": {}, "threads": 2, "models": [], "steps": [st]}
        out = replay.run(sc)
        if "error" in out:
            return None, out
        r = [x for x in out["results"] if x.get("op") == "store_roundtrip"][0]
        roles = set()
        for stage, exp, got in (("create", rec, r.get("found")), ("update", upd, r.get("found_after_update"))):
            if exp is None:
                continue
            if got is None:
                roles.add("%s:%s:not-found" % (rc["type"], stage))
                continue
            for k, val in exp.items():
                if got.get(k) != val:
                    roles.add("roundtrip:%s:field=%s" % (rc["type"], k))
        if r.get("present_after_delete"):
            roles.add("%s:delete:still-present" % rc["type"])
        if r.get("present_after_late_update"):
            roles.add("%s:update:creates-missing-record" % rc["type"])
        return (v.role in roles), dict(real=r, roles=sorted(roles))
    return None, None


def confirm_all(res):
    seen = {}
    for v in res.violations:
        if v.role in seen:
            v.confirmed, v.replay = seen[v.role]
            continue
        if len(seen) >= 10:
            continue
        okc, info = confirm(v)
        v.confirmed, v.replay = okc, info
        seen[v.role] = (okc, info)
    return res


# ---------------------------------------------------------------------------------------------------
# C09 acknowledged delivery: the retry automaton of the store (tick / ack / action / redo / clear)

OPS9 = ["tick", "ack", "action", "redo", "clear"]


def retry_path(I, res, prop, n, k):
    cx = Ctx(I, res, prop, "retry:n=%d,k=%d" % (n, k))
    W = cx.W
    store = I.call_raw("store::store::Store::new", [], None)
    I.call_raw("store::store::Store::init", [Ptr([store], 0)], None)
    msgs_coll = I.call_raw("store::store::Store::messages", [Ptr([store], 0)], None)
    limit = cx.int("max_retry", 1, 3)
    interval = cx.int("interval", 1, 50)
    T0 = 1000
    # symbolic clock: every reading is a fresh value, non-decreasing
    clock = {"last": z3.IntVal(T0), "n": 0}

    def now():
        clock["n"] += 1
        t = cx.int("t%d" % clock["n"], T0, T0 + 400)
        I.assume(t >= clock["last"])
        clock["last"] = t
        return t

    W.now = now
    names = [f[0] for f in fields_of(I, "Message")]
    fi = {f: i for i, f in enumerate(names)}
    recs = []
    for i in range(n):
        rec = sym_record(cx, "Message", "o", "m%d" % i)
        st = cx.int("status%d" % i, 0, 3)
        rt = cx.int("retry%d" % i, 0, 4)
        ut = cx.int("utime%d" % i, T0 - 200, T0)
        rec.f[fi["status"]] = Enum("MessageStatus", st, [], None)
        rec.f[fi["retry_times"]] = rt
        rec.f[fi["update_time"]] = ut
        rec.f[fi["pid"]] = "p%d" % (i % 2)
        rec.f[fi["tid"]] = "t%d" % i
        I.call_raw("<dyn store::DbCollection<Item = store::data::message::Message> as store::DbCollection>::create", [Ptr(msgs_coll.c, 0), Ptr([rec], 0)], None)
        recs.append(dict(id="m%d" % i, status=st, retry=rt, utime=ut, pid="p%d" % (i % 2), tid="t%d" % i, present=True))
    delivered = []

    def handler(I, args):
        m = deref_all(args[0])
        mf = {f[0]: i for i, f in enumerate(I.p.src.struct_fields("Message@acts/src/event/message.rs"))}
        delivered.append((m.f[mf["id"]], m.f[mf["retry_times"]]))
        return UNIT

    from mirsym.interp import PyFn
    log = []
    for step in range(k):
        op = OPS9[I.path.choose(len(OPS9), "op")]
        tgt = I.path.choose(n, "target") if op in ("ack", "action") else None
        log.append((op, tgt))
        if op == "tick":
            del delivered[:]
            before = [dict(r) for r in recs]
            # the clock reading used for the staleness test is the first reading inside the call
            nreads = clock["n"]
            I.call_raw("cache::store::<impl store::store::Store>::with_no_response_messages", [Ptr([store], 0), interval, limit, PyFn(handler)], None)
            tq = cx.sym["t%d" % (nreads + 1)]
            res.witnesses += 1
            rd = nreads + 1
            for r in recs:
                if not r["present"]:
                    continue
                stale = z3.And(r["status"] == 0, r["utime"] < tq - interval)
                is_stale = I.truth(stale, "stale?")
                tw = None
                if is_stale:
                    rd += 1
                    tw = cx.sym.get("t%d" % rd)
                redeliver = z3.And(stale, r["retry"] < limit)
                to_error = z3.And(stale, r["retry"] >= limit)
                was = [d for d in delivered if d[0] == r["id"]]
                if len(was) > 1:
                    cx.viol("retry:delivered-twice-in-one-tick", "message %s delivered %d times by one tick" % (r["id"], len(was)))
                got = len(was) >= 1
                cx.obligation(redeliver if got else z3.Not(redeliver), "retry:tick:%s" % ("spurious-redelivery" if got else "missing-redelivery"),
                              "message %s %s redelivered by the tick (log %s)" % (r["id"], "was" if got else "was not", log))
                if got:
                    cx.obligation(was[0][1] == r["retry"] + 1, "retry:tick:retry-count", "redelivery of %s carries retry_times=%r, expected previous+1" % (r["id"], was[0][1]))
                # reference post-state
                r["status"] = z3.If(to_error, 3, r["status"])
                r["retry"] = z3.If(redeliver, r["retry"] + 1, r["retry"])
                if is_stale:
                    if tw is None:
                        cx.viol("retry:tick:no-timestamp", "stale message %s was not re-stamped" % r["id"])
                    else:
                        r["utime"] = tw
        elif op == "ack":
            n0 = clock["n"]
            I.call_raw("cache::store::<impl store::store::Store>::set_message", [Ptr([store], 0), recs[tgt]["id"], Enum("MessageStatus", 1, [], "Acked")], None)
            if recs[tgt]["present"]:
                recs[tgt]["status"] = z3.IntVal(1)
                recs[tgt]["utime"] = cx.sym.get("t%d" % (n0 + 1), clock["last"])
        elif op == "action":
            n0 = clock["n"]
            I.call_raw("cache::store::<impl store::store::Store>::set_message_with", [Ptr([store], 0), recs[tgt]["pid"], recs[tgt]["tid"], Enum("MessageStatus", 2, [], "Completed")], None)
            for r in recs:
                if r["present"] and r["pid"] == recs[tgt]["pid"] and r["tid"] == recs[tgt]["tid"]:
                    n0 += 1
                    r["status"] = z3.IntVal(2)
                    r["utime"] = cx.sym.get("t%d" % n0, clock["last"])
        elif op == "redo":
            n0 = clock["n"]
            I.call_raw("cache::store::<impl store::store::Store>::resend_error_messages", [Ptr([store], 0)], None)
            for r in recs:
                if r["present"]:
                    if I.truth(r["status"] == 3, "in-error?"):
                        n0 += 1
                        r["retry"] = z3.IntVal(0)
                        r["utime"] = cx.sym.get("t%d" % n0, clock["last"])
                        r["status"] = z3.IntVal(0)
        elif op == "clear":
            I.call_raw("cache::store::<impl store::store::Store>::clear_error_messages", [Ptr([store], 0), none()], None)
            for r in recs:
                if r["present"]:
                    # concretise: was it in error?
                    if I.truth(r["status"] == 3, "clear-error?"):
                        r["present"] = False
        # compare the stored records with the reference automaton
        for r in recs:
            got = I.call_raw("<dyn store::DbCollection<Item = store::data::message::Message> as store::DbCollection>::find", [Ptr(msgs_coll.c, 0), r["id"]], None)
            if not r["present"]:
                if got.d == 0:
                    cx.viol("retry:clear:still-present", "message %s still stored after clear" % r["id"])
                continue
            if got.d != 0:
                cx.viol("retry:%s:record-lost" % op, "message %s disappeared after %s" % (r["id"], op))
                r["present"] = False
                continue
            g = got.f[0]
            cx.obligation(g.f[fi["status"]].d == r["status"], "retry:%s:status" % op, "status of %s after %s is %r, reference %r (log %s)" % (r["id"], op, g.f[fi["status"]].d, r["status"], log))
            cx.obligation(g.f[fi["retry_times"]] == r["retry"], "retry:%s:retry_times" % op, "retry_times of %s after %s (log %s)" % (r["id"], op, log))
            # acknowledged / completed messages never change back
    if len(res.samples) < 2:
        res.samples.append(dict(check="retry", log=log, decisions=list(I.path.taken)))


def retry(I, prop, n, k, max_paths, part=None):
    r = explore(I, "retry:n=%d,k=%d" % (n, k), lambda I, res: retry_path(I, res, prop, n, k), max_paths=max_paths, part=part)
    if part:
        r.name += "[%d/%d]" % part
    return r


# ---------------------------------------------------------------------------------------------------
# C09: an acknowledging channel records the message before its handler runs (first delivery only)


def channel_store_path(I, res, prop):
    from mirsym.interp import PyFn
    cx = Ctx(I, res, prop, "channel-store")
    W = cx.W
    W.boot()
    ack = I.path.choose(2, "ack") == 1
    chan_id = ["c1", ""][I.path.choose(2, "chan-id")]
    retry = cx.int("retry_times", 0, 3)
    opts = W.mk_struct("ChannelOptions", id=chan_id, ack=ack, type="*", state="*", tag="*", key="*", uses="*")
    chan = I.call_raw("export::channel::Channel::channel", [Ptr([W.rt], 0), Ptr([opts], 0)], None)
    chan = BoxV(chan, "arc")
    seen = []
    mcoll = I.call_raw("store::store::Store::messages", [Ptr(W.store.c, 0)], None)

    def handler(I, args):
        e = deref_all(args[0])
        m = W.msg_of_event(e)
        mf = {f[0]: i for i, f in enumerate(I.p.src.struct_fields("Message@acts/src/event/message.rs"))}
        mid = m.f[mf["id"]]
        got = I.call_raw("<dyn store::DbCollection<Item = store::data::message::Message> as store::DbCollection>::find", [Ptr(mcoll.c, 0), mid], None)
        seen.append((mid, got))
        return UNIT

    I.call_raw("export::channel::Channel::on_message", [Ptr([chan], 0), PyFn(handler)], None)
    msg = I.call_raw("<event::message::Message as std::default::Default>::default", [], None)
    mf = {f[0]: i for i, f in enumerate(I.p.src.struct_fields("Message@acts/src/event/message.rs"))}
    msg.f[mf["id"]] = "msg1"
    msg.f[mf["pid"]] = "p1"
    msg.f[mf["tid"]] = "t1"
    msg.f[mf["retry_times"]] = retry
    I.call_raw("event::emitter::Emitter::emit_message", [Ptr(W.emitter.c, 0), Ptr([msg], 0)], None)
    res.witnesses += 1
    mine = [s for s in seen if s[0] == "msg1"]
    if len(mine) != 1:
        cx.viol("channel:handler-calls=%d" % len(mine), "handler of the channel ran %d times for one message" % len(mine))
        return
    stored = mine[0][1].d == 0
    first = I.truth(retry == 0, "first-delivery?")
    should = ack and chan_id != "" and first
    if should and not stored:
        cx.viol("channel:not-stored-before-handler", "ack channel: the message was not in the store when the handler ran")
    if stored and not should:
        cx.viol("channel:stored-unexpectedly:ack=%s,first=%s" % (ack, first), "message stored although ack=%s chan_id=%r first=%s" % (ack, chan_id, first))
    if stored:
        sf = {f[0]: i for i, f in enumerate(fields_of(I, "Message"))}
        g = mine[0][1].f[0]
        cx.obligation(g.f[sf["status"]].d == 0, "channel:stored-status", "stored status is not created")
        cx.obligation(g.f[sf["retry_times"]] == 0, "channel:stored-retry", "stored retry_times is not 0")
        if g.f[sf["chan_id"]] != chan_id or g.f[sf["pid"]] != "p1" or g.f[sf["tid"]] != "t1":
            cx.viol("channel:stored-fields", "stored message does not carry the channel id / pid / tid")
    if len(res.samples) < 2:
        res.samples.append(dict(check="channel-store", ack=ack, chan_id=chan_id, stored=stored))


def channel_store(I, prop):
    return explore(I, "channel-store", lambda I, res: channel_store_path(I, res, prop), max_paths=100)


# ---------------------------------------------------------------------------------------------------
# C09 (c): redelivery through the engine's real tick handler (Runtime's on_tick closure), with and without a running process in the cache
def tick_path(I, res, prop):
    from . import scen
    cx = Ctx(I, res, prop, "tick-handler")
    W = World(I, policy="fifo", tick_secs=2, max_retry=2, keep_processes=True).boot()
    cx.W = W
    with_proc = I.path.choose(3, "other-process")   # 0: engine idle, 1: a running process, 2: a process that has already finished
    if with_proc == 1:
        W.start(scen.catalogue()["one_irq"][0], {})
        W.drain()
    elif with_proc == 2:
        W.start(scen.catalogue()["auto"][0], {})
        W.drain()
    # an unacknowledged message whose last delivery is older than the interval (2 s) / younger than it (decision)
    names = [f[0] for f in fields_of(I, "Message")]
    fi = {f: i for i, f in enumerate(names)}
    msgs_coll = I.call_raw("store::store::Store::messages", [Ptr(W.store.c, 0)], None)
    stale = I.path.choose(2, "stale") == 1
    retry0 = I.path.choose(3, "retry-so-far")
    rec = sym_record(cx, "Message", "t", "mx")
    rec.f[fi["status"]] = Enum("MessageStatus", 0, [], "Created")
    rec.f[fi["retry_times"]] = retry0
    rec.f[fi["update_time"]] = W.clock - (10_000 if stale else 0)
    rec.f[fi["pid"]] = "gone"
    rec.f[fi["tid"]] = "t1"
    I.call_raw("<dyn store::DbCollection<Item = store::data::message::Message> as store::DbCollection>::create", [Ptr(msgs_coll.c, 0), Ptr([rec], 0)], None)
    n0 = len(W.messages)
    W.tick()
    W.drain()
    res.witnesses += 1
    got = I.call_raw("<dyn store::DbCollection<Item = store::data::message::Message> as store::DbCollection>::find", [Ptr(msgs_coll.c, 0), "mx"], None)
    if got.d != 0:
        cx.viol("tick-handler:record-lost", "the stored message disappeared at a tick")
        return
    g = got.f[0]
    st, rt = g.f[fi["status"]].d, g.f[fi["retry_times"]]
    redelivered = [m for m in W.messages[n0:] if m.get("id") == "mx"]
    tag = ["idle-engine", "running-process", "finished-process"][with_proc]
    if stale and retry0 < 2:
        if len(redelivered) != 1:
            cx.viol("tick-handler:not-redelivered:%s" % tag, "an unacknowledged message older than the interval was redelivered %d times by the tick (retry so far %d, limit 2, %s)" % (len(redelivered), retry0, tag))
        if rt != retry0 + 1 or st != 0:
            cx.viol("tick-handler:retry-count:%s" % tag, "stored retry_times=%r status=%r after the tick, expected %d / created" % (rt, st, retry0 + 1))
    elif stale:
        if redelivered or st != 3:
            cx.viol("tick-handler:limit:%s" % tag, "a message at the retry limit: redelivered %d times, status %r (expected none / error)" % (len(redelivered), st))
    else:
        if redelivered or rt != retry0 or st != 0:
            cx.viol("tick-handler:fresh-message-touched:%s" % tag, "a message younger than the interval was redelivered / changed by the tick")
    if len(res.samples) < 2:
        res.samples.append(dict(check="tick-handler", other_process=tag, stale=stale, retry_so_far=retry0, redelivered=len(redelivered), status=st, retry_times=str(rt)))


def tick_handler(I, prop):
    return explore(I, "tick-handler", lambda I, res: tick_path(I, res, prop), max_paths=60)
