"""C15: sub-process call and return."""
import z3

from mirsym.values import *
from mirsym.world import World, STATE_NAMES, TERMINAL
from mirsym.harness import Violation, explore
from . import scen
from .multi import Driver, Proc

CHILD = scen.wf("child", [scen.step("cs1", [scen.irq("c1")])], inputs={"r": 0, "a": 7}, outputs={"r": None})
CHILD2 = scen.wf("child", [scen.step("cs1", [{"id": "call2", "uses": "acts.core.subflow", "params": {"to": "grand", "options": {"g": 1}}}])], outputs={})
GRAND = scen.wf("grand", [scen.step("gs1", [scen.irq("g1")])])


def parent(to="child", call_outputs=None):
    call = {"id": "call", "uses": "acts.core.subflow", "params": {"to": to, "options": {"a": "$a", "b": "$a"}}}
    if call_outputs:
        call["outputs"] = call_outputs
    return scen.wf("parent", [scen.step("s1", [call, scen.irq("p0")]), scen.step("s2", [scen.irq("p1")])])


# a child that declares an output nobody ever sets (it stays null) and a caller that declares that key as an output of the calling act
CHILD_U = scen.wf("child", [scen.step("cs1", [scen.irq("c1")])], inputs={"r": 0, "a": 7}, outputs={"r": None, "u": None})


def deploy(d, W, model):
    I = d.I
    m = W.model(model)
    ex = I.call_raw("export::executor::model_executor::ModelExecutor::new", [Ptr([W.rt], 0)], None)
    r = I.call_raw("export::executor::model_executor::ModelExecutor::deploy", [Ptr([ex], 0), Ptr([m], 0)], None)
    return r


def start_by_mid(d, W, mid, options):
    I = d.I
    ex = I.call_raw("export::executor::process_executor::ProcessExecutor::new", [Ptr([W.rt], 0)], None)
    return I.call_raw("export::executor::process_executor::ProcessExecutor::start", [Ptr([ex], 0), mid, Ptr([W.vars_of(options)], 0)], None)


def find_proc(W, mid):
    out = []
    for p in W.procs():
        model = W.field(W.field(p.c[0], "Process", "tree").c[0].f[0], "NodeTree", "model")
        if W.field(model.c[0], "Workflow", "id") == mid:
            out.append(p)
    return out


def subst(model, sym):
    from .data import instantiate
    return instantiate(model, sym)


def call_path(I, res, prop, shape, policy):
    d = Driver(I, res, prop, "subflow:%s:%s" % (shape, policy))
    a = z3.Int("a")
    d.sym["a"] = a
    I.assume(z3.And(a >= 0, a <= 100))
    rv = z3.Int("r")
    d.sym["r"] = rv
    I.assume(z3.And(rv >= 0, rv <= 100))
    W = d.world(policy=policy)
    if shape == "unset-output":
        deploy(d, W, CHILD_U)
        deploy(d, W, subst(parent(call_outputs={"u": None}), {"a": a}))
        r = start_by_mid(d, W, "parent", {})
        if r.d != 0:
            raise Unsupported("parent did not start")
        W.drain()
        res.witnesses += 1
        P = Proc(W, find_proc(W, "parent")[0], parent(call_outputs={"u": None}), "P")
        C = Proc(W, find_proc(W, "child")[0], CHILD_U, "C")
        c1 = [t for t in C.tasks() if t["kind"] == "Act" and t["state"] == "Interrupt"][0]
        W.action(C.pid, c1["tid"], "Next", {"r": rv})
        W.drain()
        P.live()
        call = [t for t in P.tasks() if t["nid"] == "call"][0]
        if not C.done():
            d.viol("child-not-finished:Next", "the child did not deliver a terminal event")
        elif call["state"] != "Completed":
            d.viol("call-state:%s/Completed:unset-output" % call["state"], "the child completed (its declared output u was never set and is null) but the calling act, which declares u as an output, is %s" % call["state"])
        elif "u" not in (call["data"] or {}):
            d.viol("call-outputs:unset-output-missing", "the calling act did not receive the key u (null) it declares as output")
        return
    if shape != "missing":
        deploy(d, W, CHILD if shape not in ("nested", "nested-missing") else CHILD2)
    if shape == "nested":
        deploy(d, W, GRAND)
    deploy(d, W, subst(parent(), {"a": a}))
    r = start_by_mid(d, W, "parent", {})
    if r.d != 0:
        raise Unsupported("parent did not start: %r" % (r.f[0],))
    W.drain()
    res.witnesses += 1
    pp = find_proc(W, "parent")
    P = Proc(W, pp[0], parent(), "P")
    call = [t for t in P.tasks() if t["nid"] == "call"][0]
    if shape == "nested-missing":
        # the inner call fails (no such model): the child errors, and that error must come back to the outer calling act
        if call["state"] != "Error":
            d.viol("nested-missing:outer-call=%s" % call["state"], "the child failed (its own call names an undeployed model) but the outer calling act is %s" % call["state"])
        if not P.done():
            d.viol("nested-missing:parent-hangs", "the child failed but the parent neither failed nor finished")
        return
    if shape == "missing":
        if call["state"] != "Error":
            d.viol("missing-model:calling-act=%s" % call["state"], "the target model does not exist but the calling act is %s" % call["state"])
        if not P.done():
            d.viol("missing-model:parent-not-failed", "the target model does not exist; the parent process neither failed nor reported the error")
        return
    leaf_mid = "grand" if shape == "nested" else "child"
    cps = find_proc(W, leaf_mid)
    if len(cps) != 1:
        d.viol("child-processes=%d" % len(cps), "%d child processes were started by one call" % len(cps))
        return
    C = Proc(W, cps[0], GRAND if shape == "nested" else CHILD, "C")
    mid_p = find_proc(W, "child") if shape == "nested" else []
    # child inputs = call options + the two parent link keys
    if shape != "nested":
        root = [t for t in C.tasks() if t["tid"] == "$"][0]
        got = dict(root["data"])
        ppid, ptid = got.pop("$parent_pid", None), got.pop("$parent_tid", None)
        if ppid != P.pid or ptid != call["tid"]:
            d.viol("child-parent-link", "child root data carries parent link (%r, %r), expected (%r, %r)" % (ppid, ptid, P.pid, call["tid"]))
        extra = set(got.keys()) - {"a", "b", "r"}
        if extra:
            d.viol("child-inputs:extra-keys:%s" % sorted(extra), "the child was started with keys %s besides the call options" % sorted(extra))
        # 'a' is also declared by the child (default 7), 'b' is not: the call's value wins / is added
        for key in ("a", "b"):
            av = got.get(key)
            res.obligations += 1
            if av is None or (I.check_sat(z3.Not(av == a)) if is_sym(av) else True):
                d.viol("child-inputs:option-value:%s" % ("declared-by-child" if key == "a" else "undeclared"), "child input %s = %r, the call passed %r" % (key, av, a))
        if got.get("r") != 0:
            d.viol("child-inputs:own-default-lost", "the child's own input default r=0 arrived as %r" % (got.get("r"),))
    # the calling act stays open while the child runs
    if call["state"] in TERMINAL:
        d.viol("call-closed-early:%s" % call["state"], "the calling act is %s while the child process is still running" % call["state"])
    # end the child in a chosen way
    how = ["Next", "Error", "Abort", "Skip"][I.path.choose(4, "ending")]
    c1 = [t for t in C.tasks() if t["kind"] == "Act" and t["state"] == "Interrupt"][0]
    opts = {"r": rv} if shape != "nested" else {}
    if how == "Error":
        opts = dict(opts, ecode="E7", message="child failed")
    nmsg = len(W.messages)
    W.action(C.pid, c1["tid"], how, opts)
    W.drain()
    P.live()
    call = [t for t in P.tasks() if t["nid"] == "call"][0]
    want = {"Next": "Completed", "Error": "Error", "Abort": "Aborted", "Skip": "Skipped"}[how]
    cdone = C.done()
    if not cdone:
        d.viol("child-not-finished:%s" % how, "the child did not deliver a terminal event after %s" % how)
        return
    if shape != "nested":
        if call["state"] != want and not (how in ("Abort", "Skip") and call["state"] in ("Aborted", "Skipped", "Completed")):
            d.viol("call-state:%s/%s" % (call["state"], want), "the child ended by %s but the calling act is %s (expected %s)" % (how, call["state"], want))
        if how == "Next":
            got = (call["data"] or {}).get("r")
            res.obligations += 1
            if got is None or (I.check_sat(z3.Not(got == rv)) if is_sym(got) else got != rv):
                d.viol("call-outputs", "the calling act did not receive the child's output r (got %r)" % (got,))
        if how == "Error":
            e = call["err"] or {}
            if e.get("ecode") != "E7" or e.get("message") != "child failed":
                d.viol("call-error-code", "the calling act carries %r, the child failed with E7 / 'child failed'" % (e,))
    # closed exactly once: exactly one terminal message for the calling act... (Func acts emit none) -> count returns
    rets = [r for r in W.action_results if r[0] == "return_to_act"]
    exp_rets = 2 if shape == "nested" else 1
    if len(rets) != exp_rets:
        d.viol("returns=%d/%d" % (len(rets), exp_rets), "%d return actions were issued for %d finished child processes" % (len(rets), exp_rets))
    # parent's terminal event never precedes the child's
    evs = [(e[0], e[1]["pid"]) for e in W.events if e[0] in ("complete", "error")]
    pids = [p for k, p in evs]
    if P.pid in pids and C.pid in pids and pids.index(P.pid) < pids.index(C.pid):
        d.viol("parent-terminal-before-child", "the parent's terminal event precedes the child's")
    # answering everything else finishes the parent (completed endings) or it has failed (error ending)
    n = 0
    while n < 8:
        irqs = d.open_irqs(P)
        if not irqs or P.done():
            break
        n += 1
        d.answer(W, P, irqs[0])
    if how == "Next" and not P.done():
        d.viol("parent-not-finished", "the parent did not finish after the child completed and every interrupt was answered")
    if len(res.samples) < 2:
        res.samples.append(dict(shape=shape, ending=how, call_state=call["state"], events=evs))


def call(I, prop, shape, policy, max_paths):
    return explore(I, "subflow:%s:%s" % (shape, policy), lambda I, res: call_path(I, res, prop, shape, policy), max_paths=max_paths)


# ---------------------------------------------------------------------------------------------- C17 with a sub-process
def _rows(I, W, which):
    dtype = {"tasks": "store::data::task::Task", "procs": "store::data::proc::Proc"}[which]
    coll = I.call_raw("store::store::Store::%s" % which, [Ptr(W.store.c, 0)], None)
    q = I.call_raw("store::query::Query::new", [], None)
    r = I.call_raw("<dyn store::DbCollection<Item = %s> as store::DbCollection>::query" % dtype, [Ptr(coll.c, 0), Ptr([q], 0)], None)
    if r.d != 0:
        raise Unsupported("store query failed")
    pf = {f[0]: i for i, f in enumerate(I.p.src.struct_fields("PageData"))}
    names = [f[0] for f in I.p.src.struct_fields(dtype)]
    return [dict(zip(names, row.f)) for row in r.f[0].f[pf["rows"]].a]


def retention_path(I, res, prop, policy, keep):
    """Default retention with a called sub-process: when the child has delivered its terminal event its rows are gone (the parent's stay);
    when the parent has finished nothing is left.  keep_processes: both stay."""
    d = Driver(I, res, prop, "subflow-retention:%s:%s" % ("keep" if keep else "default", policy))
    W = d.world(policy=policy, keep_processes=keep)
    deploy(d, W, CHILD)
    deploy(d, W, subst(parent(), {"a": 3}))
    r = start_by_mid(d, W, "parent", {})
    if r.d != 0:
        raise Unsupported("parent did not start: %r" % (r.f[0],))
    W.drain()
    pp = find_proc(W, "parent")
    cps = find_proc(W, "child")
    if len(pp) != 1 or len(cps) != 1:
        raise Unsupported("parent / child not running")
    P = Proc(W, pp[0], parent(), "P")
    C = Proc(W, cps[0], CHILD, "C")
    how = ["Next", "Error", "Abort", "Skip"][I.path.choose(4, "ending")]
    c1 = [t for t in C.tasks() if t["kind"] == "Act" and t["state"] == "Interrupt"][0]
    opts = {"r": 1}
    if how == "Error":
        opts = dict(opts, ecode="E7", message="child failed")
    W.action(C.pid, c1["tid"], how, opts)
    W.drain()
    if not C.done():
        raise Unsupported("child did not finish")
    res.witnesses += 1

    def count(pid):
        return len([x for x in _rows(I, W, "procs") if x["id"] == pid]), len([x for x in _rows(I, W, "tasks") if x["pid"] == pid])

    cp, ct = count(C.pid)
    if not keep:
        if cp or ct:
            d.viol("rows-left:child:%s" % how, "the called process delivered its terminal event (%s) but %d process / %d task rows of it remain (default configuration)" % (how, cp, ct))
    else:
        if cp != 1 or ct == 0:
            d.viol("keep:child-rows:%d/%d" % (cp, ct), "keep_processes: %d process / %d task rows of the finished child" % (cp, ct))
    # the parent is still running (unless the child's error ended it): its rows must still be there
    if not P.done():
        pc, pt = count(P.pid)
        if pc != 1 or pt == 0:
            d.viol("rows-missing:running-parent", "the running parent has %d process / %d task rows after its child was removed" % (pc, pt))
    n = 0
    while n < 8:
        P.live()
        irqs = d.open_irqs(P) if not P.done() else []
        if not irqs:
            break
        n += 1
        d.answer(W, P, irqs[0])
    if P.done():
        pc, pt = count(P.pid)
        if not keep and (pc or pt):
            d.viol("rows-left:parent", "the parent finished but %d process / %d task rows remain (default configuration)" % (pc, pt))
        if not keep:
            left = (len(_rows(I, W, "procs")), len(_rows(I, W, "tasks")))
            if left != (0, 0) and not (pc or pt or cp or ct):
                d.viol("rows-left:other", "%d process / %d task rows of neither process remain" % left)
        if keep and pc != 1:
            d.viol("keep:parent-rows:%d" % pc, "keep_processes: %d process rows of the finished parent" % pc)
    if len(res.samples) < 2:
        res.samples.append(dict(retention="keep" if keep else "default", ending=how, child_rows=(cp, ct), parent_done=bool(P.done())))


def retention(I, prop, policy, keep, max_paths):
    return explore(I, "subflow-retention:%s:%s" % ("keep" if keep else "default", policy), lambda I, res: retention_path(I, res, prop, policy, keep), max_paths=max_paths)
