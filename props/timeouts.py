"""C19: timeout rules fire once, never early, and only for open tasks — forward runs with a symbolic clock."""
import z3

from mirsym.values import *
from mirsym.world import World, STATE_NAMES, TERMINAL
from mirsym.harness import Violation, explore
from . import scen
from .flow import Run, Cfg, install_trace_context

CLOSE_KINDS = ["Next", "Skip", "Submit", "Remove"]
UNIT_MS = {"s": 1000, "m": 60000, "h": 3600000, "d": 86400000}


def limit_ms(on):
    return int(on[:-1]) * UNIT_MS[on[-1]]


def model_for(rules, on_step, late=False):
    """A step with one irq act; the timeout rules sit on the act or on the step.  late: a gate step with one irq comes first, so the timed task starts later than its process."""
    tmo = [scen.timeout(on, [scen.step("ts%d" % i, [scen.irq("ta%d" % i)])]) for i, on in enumerate(rules)]
    gate = [scen.step("s0", [scen.irq("g")])] if late else []
    if on_step == "both":
        # rule 0 sits on the step, the others on its act (same or different durations on two tasks of one ancestor chain)
        return scen.wf("m", gate + [scen.step("s1", [scen.irq("a1", timeout=tmo[1:])], timeout=tmo[:1]), scen.step("s2", [scen.irq("a2")])])
    if on_step:
        return scen.wf("m", gate + [scen.step("s1", [scen.irq("a1")], timeout=tmo), scen.step("s2", [scen.irq("a2")])])
    return scen.wf("m", gate + [scen.step("s1", [scen.irq("a1", timeout=tmo)]), scen.step("s2", [scen.irq("a2")])])


class TRun(Run):
    def __init__(self, I, res, rules, on_step, cfg, prop):
        self.I = I
        self.res = res
        self.late = bool(getattr(cfg, "late", False))
        self.name = "timeout:%s:%s%s" % ("both" if on_step == "both" else "step" if on_step else "act", "+".join(rules), ":late" if self.late else "")
        self.cfg = cfg
        self.prop = prop
        self.rules = rules
        self.on_step = on_step
        self.model = model_for(rules, on_step, self.late)
        self.inputs = {}
        self.sym = {}
        self.log = []
        self.current_action = None
        self.terminal_reported = {}
        self.catch_revived = set()
        self.readings = []

    def boot(self):
        I = self.I
        self.W = World(I, policy=self.cfg.policy, tick_secs=100000).boot()
        W = self.W
        run = self
        last = {"v": z3.IntVal(1000)}

        def now():
            t = z3.Int("clk%d" % (len(run.readings) + 1))
            run.sym[str(t)] = t
            I.assume(z3.And(t >= last["v"], t <= 10**9))
            last["v"] = t
            run.readings.append(t)
            return t

        W.now = now
        W.tick_clock = lambda: (W.__dict__.__setitem__("clock", W.clock + 1) or W.clock * 1000)
        self.install_event_monitor()
        self.proc = W.start(self.model, {})
        self.pid = W.field(self.proc.c[0], "Process", "id")
        return W

    def timed_nid(self, i=0):
        if self.on_step == "both":
            return "s1" if i == 0 else "a1"
        return "s1" if self.on_step else "a1"

    def timed_task(self, i=0):
        ts = [t for t in self.tasks() if t["nid"] == self.timed_nid(i)]
        return ts[0] if ts else None

    def fired(self, i):
        return [t for t in self.tasks() if t["nid"] == "ts%d" % i]

    def run(self):
        I = self.I
        W = self.boot()
        W.drain()
        if self.late:
            # the client opens the gate some (symbolic) time after the start: the timed task is created then, its rules count from there
            g = [t for t in self.tasks() if t["nid"] == "g" and t["state"] == "Interrupt"]
            if not g:
                raise Unsupported("gate act not open")
            W.action(self.pid, g[0]["tid"], "Next", {})
            W.drain()
        tt = self.timed_task()
        if tt is None:
            raise Unsupported("timed task not created")
        start = tt["start_time"]
        starts = [self.timed_task(i)["start_time"] for i in range(len(self.rules))]
        self.start_var = str(start)
        self.ev_reads = []
        k = self.cfg.k
        answered_at = None
        fired_at = {}
        for stepno in range(k):
            what = ["tick", "answer"][I.path.choose(2, "event")] if answered_at is None else "tick"
            self.log.append(dict(event=what))
            if what == "answer":
                a1 = [t for t in self.tasks() if t["nid"] == "a1" and t["state"] == "Interrupt"]
                if not a1:
                    continue
                n0 = len(self.readings)
                # the client closes the act: by complete, or by one of the other closing actions (the task is finished either way)
                ckind = CLOSE_KINDS[I.path.choose(len(CLOSE_KINDS), "close-kind")]
                self.log[-1].update(kind=ckind, action=ckind, accepted=True, target="a1", target_state="Interrupt")
                W.action(self.pid, a1[0]["tid"], ckind, {})
                W.drain()
                answered_at = (n0, len(self.readings))
                self.ev_reads.append((n0 + 1, len(self.readings)))
                continue
            before = {i: len(self.fired(i)) for i in range(len(self.rules))}
            tstate = self.timed_task()["state"]
            tstates = [self.timed_task(i)["state"] for i in range(len(self.rules))]
            n0 = len(self.readings)
            W.tick()
            W.drain()
            n1 = len(self.readings)
            self.res.witnesses += 1
            if n1 == n0:
                raise Unsupported("tick without a clock reading")
            t_lo, t_hi = self.readings[n0], self.readings[n1 - 1]
            self.ev_reads.append((n0 + 1, n1))
            after_state = self.timed_task()["state"]
            if tstate not in TERMINAL and after_state != tstate:
                self.viol("timeout:tick-changed-timed-task:%s->%s" % (tstate, after_state), "a tick changed the state of the timed task %s -> %s" % (tstate, after_state))
            proc_running = self.proc_state() == "Running" or True
            for i, on in enumerate(self.rules):
                lim = limit_ms(on)
                tstate, start = tstates[i], starts[i]
                now_fired = len(self.fired(i)) - before[i]
                total = len(self.fired(i))
                if total > 1:
                    self.viol("timeout:fired-more-than-once", "rule %s started its steps %d times" % (on, total))
                if now_fired >= 1:
                    if tstate in TERMINAL:
                        self.viol("timeout:fired-for-finished-task:%s" % tstate, "rule %s fired although the timed task was already %s" % (on, tstate))
                    # never early: in every model of the path the latest reading of this tick is past the limit
                    self.start_z3, self.last_hi = (start if is_sym(start) else None), (t_hi, lim)
                    self.oblig(t_hi - start >= lim, "timeout:fired-early:unit=%s" % on[-1], "rule %s fired before the task had been open for %d ms" % (on, lim))
                    fired_at[i] = stepno
                elif i not in fired_at and tstate not in TERMINAL and self.tick_scans():
                    # due rules fire at this tick: in every model the first reading of the tick is before the limit
                    self.oblig(t_lo - start < lim, "timeout:not-fired-when-due:unit=%s" % on[-1], "rule %s did not fire at a tick past its limit (%d ms) while the task was open" % (on, lim))
        if self.cfg.oracles:
            # the flow oracles (C03) on histories with fired timeout rules: check, then answer every open interrupt (handler acts included)
            self.at_quiescence("events")
            n = 0
            while n < 8:
                irqs = self.open_irqs()
                if not irqs or self.terminal_events():
                    break
                n += 1
                t = irqs[0]
                occ = [x["tid"] for x in self.tasks() if x["nid"] == t["nid"]].index(t["tid"])
                W.action(self.pid, t["tid"], "Next", {})
                self.log.append(dict(event="answer-any", answer=t["nid"], occurrence=occ))
                W.drain()
                self.at_quiescence("answer%d" % n)
        if len(self.res.samples) < 3:
            self.res.samples.append(dict(scenario=self.name, events=[e["event"] for e in self.log], decisions=list(I.path.taken)))

    def tick_scans(self):
        return self.proc_state() == "Running"

    def oblig(self, cond, role, desc):
        I = self.I
        if self.cfg.oracles:
            return  # run under a flow oracle (C03): the timing obligations are C19's subject
        self.res.obligations += 1
        neg = z3.Not(cond)
        if I.check_sat(neg):
            m = None
            if "fired-early" in role and getattr(self, "start_z3", None) is not None and getattr(self, "last_hi", None) is not None:
                # prefer a witness the real engine can be steered into: start in the middle of a second, tick a few hundred ms before the limit
                pref = z3.And(neg, self.start_z3 % 1000 == 700, self.last_hi[0] == self.start_z3 + self.last_hi[1] - 300)
                if I.check_sat(pref):
                    m = I.model(pref)
            if m is None:
                m = I.model(neg)
            model = {k: str(m.eval(v, model_completion=True)) for k, v in self.sym.items()} if m is not None else {}
            self.res.violations.append(Violation(self.prop, role, desc, self.name, dict(decisions=list(I.path.taken), events=[e["event"] for e in self.log], rules=self.rules,
                                                                                         on_step=self.on_step, late=self.late, start_var=self.start_var, ev_reads=list(self.ev_reads), log=list(self.log)), model, None))

    def viol(self, role, desc, detail=None):
        I = self.I
        if self.cfg.oracles and role.startswith("timeout:"):
            return  # run under a flow oracle (C03): firing rules are C19's subject
        m = I.model()
        model = {k: str(m.eval(v, model_completion=True)) for k, v in self.sym.items()} if m is not None else {}
        self.res.violations.append(Violation(self.prop, role, desc, self.name, dict(decisions=list(I.path.taken), events=[e["event"] for e in self.log], rules=self.rules,
                                                                                     on_step=self.on_step, late=self.late, start_var=self.start_var, ev_reads=list(self.ev_reads), log=list(self.log)), model, detail))


def confirm(v, oracles=()):
    """Replay on the real engine with a controlled clock offset and manual ticks."""
    from . import replay
    d = v.decisions
    rules, on_step, events = d["rules"], d["on_step"], d["events"]
    extra = [e for e in d.get("log", []) if e.get("event") == "answer-any"]
    events = [e for e in events if e != "answer-any"]
    m = v.model or {}
    # the clock offset of every event = (model reading inside the event) - (reading that stamped the task's start)
    late = bool(d.get("late"))
    model = model_for(rules, on_step, late)
    start_val = int(m.get(d["start_var"], 1000))
    # late: the gate is opened `gap` ms after the start (the model's first reading stamps the process), the timed task is stamped then
    gap = max(0, start_val - int(m.get("clk1", start_val))) if late else 0
    # the engine clock gets the sub-second phase the model's start has (a few ms of real time pass before the task is stamped)
    steps = [{"op": "clock", "phase": (start_val - gap) % 1000}, {"op": "start", "mid": "m", "inputs": {}}]
    if late:
        steps += [{"op": "clock", "offset": gap}, {"op": "action", "kind": "next", "nid": "g", "occurrence": 0, "options": {}}]
    offsets = []
    for ev, (lo, hi) in zip(events, d["ev_reads"]):
        val = int(m.get("clk%d" % hi, start_val)) if hi >= lo else start_val
        offsets.append(gap + max(0, val - start_val))
    offsets = [max(offsets[: i + 1]) for i in range(len(offsets))]
    kinds = [e.get("kind", "Next") for e in d.get("log", []) if e.get("event") in ("tick", "answer")]
    for i, (ev, off) in enumerate(zip(events, offsets)):
        if ev == "tick":
            steps.append({"op": "tick", "clock_offset": off})
        else:
            steps.append({"op": "clock", "offset": off})
            steps.append({"op": "action", "kind": replay.snake(kinds[i]) if i < len(kinds) else "next", "nid": "a1", "occurrence": 0, "options": {}})
    for e in extra:
        steps.append({"op": "action", "kind": "next", "nid": e["answer"], "occurrence": e.get("occurrence", 0), "options": {}})
    sc = {"config": {"keep_processes": True, "tick_interval_secs": 100000}, "threads": 2, "models": [model], "steps": steps, "known_nids": sorted(replay.node_ids(model))}
    out = replay.run(sc)
    if "error" in out:
        return None, out
    obs = replay.normalise(out)
    if oracles:
        from .flow import ReplayRun
        found = []
        views = [dict(obs, procs=sn["procs"], messages=obs["messages"][: sn["nmsg"]], events=obs["events"][: sn["nevents"]]) for sn in obs["snapshots"] if sn["procs"]] + [obs]
        for view in views:
            rr = ReplayRun("timeout-replay", Cfg(oracles=oracles), v.prop, view, model)
            rr.log = [e for e in d.get("log", []) if e.get("action")]
            for o in oracles:
                f = getattr(rr, "q_" + o, None)
                if f:
                    f("replay")
            found += [r for r, _ in rr.found]
        return (v.role in found), dict(roles=sorted(set(found)), tasks=[(t["nid"], t["state"]) for t in (obs["procs"][0]["tasks"] if obs["procs"] else [])])
    tasks = obs["procs"][0]["tasks"] if obs["procs"] else []
    roles = set()
    for i, on in enumerate(rules):
        n = len([t for t in tasks if t["nid"] == "ts%d" % i])
        if n > 1:
            roles.add("timeout:fired-more-than-once")
    # evaluate never-early / due on the snapshots
    timed_of = lambda i: ("s1" if i == 0 else "a1") if on_step == "both" else ("s1" if on_step else "a1")
    timed = timed_of(0)
    fired_before = {i: 0 for i in range(len(rules))}
    si = 0
    snaps = obs["snapshots"]
    # snapshot 0 = after start; then one per replay step
    step_snaps = snaps[4 if late else 2:]  # snapshot 0: clock phase, 1: start, (late: 2 gate clock, 3 gate action,) then one per replay step
    j = 0
    for ev, off in zip(events, offsets):
        if ev == "answer":
            j += 2
            continue
        if j >= len(step_snaps):
            break
        sn = step_snaps[j]
        j += 1
        tl = sn["procs"][0]["tasks"]
        prev_state = None
        for i, on in enumerate(rules):
            n = len([t for t in tl if t["nid"] == "ts%d" % i])
            lim = limit_ms(on)
            tt = [t for t in tl if t["nid"] == timed_of(i)]
            if n > fired_before[i]:
                # measured on the engine's own clock: the handler step was stamped before the timed task had been open for the limit
                fired_ts = [t for t in tl if t["nid"] == "ts%d" % i]
                if tt and fired_ts and tt[0]["start_time"] and fired_ts[0]["start_time"] and fired_ts[0]["start_time"] - tt[0]["start_time"] < lim:
                    roles.add("timeout:fired-early:unit=%s" % on[-1])
                if tt and tt[0]["state"] in TERMINAL and tt[0]["end_time"] and False:
                    pass
            elif n == 0 and tt and tt[0]["state"] not in TERMINAL and off - gap >= lim:
                roles.add("timeout:not-fired-when-due:unit=%s" % on[-1])
            fired_before[i] = n
    # fired for a finished task: a rule step instance created after the timed task's end
    final = tasks
    tt = [t for t in final if t["nid"] == timed]
    for i, on in enumerate(rules):
        for t in [t for t in final if t["nid"] == "ts%d" % i]:
            if tt and tt[0]["state"] in TERMINAL and tt[0]["end_time"] and t["start_time"] >= tt[0]["end_time"] and "answer" in events:
                roles.add("timeout:fired-for-finished-task:%s" % tt[0]["state"])
    return (v.role in roles), dict(roles=sorted(roles), offsets=offsets, tasks=[(t["nid"], t["state"]) for t in tasks])


def run_rules(I, rules, on_step, cfg_kw, prop):
    cfg = Cfg(**cfg_kw)

    def one(I, res):
        r = TRun(I, res, rules, on_step, cfg, prop)
        orig = r.install_event_monitor

        def inst(rebind=False):
            orig(rebind)
            install_trace_context(r)

        r.install_event_monitor = inst
        r.run()

    res = explore(I, "timeout:%s:%s%s" % ("both" if on_step == "both" else "step" if on_step else "act", "+".join(rules), ":late" if getattr(cfg, "late", False) else ""), one, max_paths=cfg.max_paths)
    seen = {}
    for v in res.violations:
        if v.role in seen:
            v.confirmed, v.replay = seen[v.role]
            continue
        if len(seen) >= 6:
            continue
        okc, info = confirm(v, cfg.oracles)
        v.confirmed, v.replay = okc, info
        seen[v.role] = (okc, info)
    return res
