"""C14: the script boundary keeps values intact (ActValue::into_js / from_js) and templates substitute every expression."""
import z3

from mirsym.values import *
from mirsym.world import World
from mirsym.harness import Violation, explore
from mirsym.intr_core import struct_eq
from mirsym.intr_serde import jnum, jstr, jbool, jnull, jarr, jobj, py_to_json, json_to_py
from mirsym.intr_js import JsV


def roundtrip_path(I, res, prop, shape):
    """from_js(into_js(v)) == v for a JSON value of the given shape whose integer leaf is symbolic."""
    W = World(I)
    n = z3.Int("n")
    I.assume(z3.And(n >= -(2**53), n <= 2**53))
    leaf = jnum(n)
    v = {"int": leaf, "array": jarr([jstr("s"), leaf, jbool(True), jnull()]), "object": jobj([("k", leaf), ("t", jstr("txt")), ("o", jobj([("deep", leaf)]))]),
         "string": jstr("unicode é中"), "bool": jbool(False), "null": jnull()}[shape]
    av = Agg("env::value::ActValue", [clone_value(v)])
    ctx = Opaque("jsctx")
    js = I.call_raw("<env::value::ActValue as rquickjs::IntoJs>::into_js", [av, Ptr([ctx], 0)], None)
    res.witnesses += 1
    if js.d != 0:
        res.violations.append(Violation(prop, "value:into_js-failed:" + shape, "into_js failed", "value:" + shape, dict(decisions=list(I.path.taken)), {}, None))
        return
    back = I.call_raw("<env::value::ActValue as rquickjs::FromJs>::from_js", [Ptr([ctx], 0), js.f[0]], None)
    if back.d != 0:
        res.violations.append(Violation(prop, "value:from_js-failed:" + shape, "from_js failed", "value:" + shape, dict(decisions=list(I.path.taken)), {}, None))
        return
    got = back.f[0].f[0]
    eq = num_equal(I, v, got)
    res.obligations += 1
    bad = eq is False or (eq is not True and I.check_sat(z3.Not(eq)))
    if bad:
        m = I.model(z3.Not(eq)) if eq is not False and eq is not True else I.model()
        val = str(m.eval(n, model_completion=True)) if m is not None else "?"
        res.violations.append(Violation(prop, "value:integer-changed-at-script-boundary:%s" % shape,
                                        "an integer (e.g. n = %s) inside a %s does not survive JSON -> script -> JSON (got %r)" % (val, shape, got),
                                        "value:" + shape, dict(decisions=list(I.path.taken), shape=shape), {"n": val}, None))
    if len(res.samples) < 2:
        res.samples.append(dict(check="value-roundtrip", shape=shape, result=repr(got)[:200]))


def float_out_path(I, res, prop):
    """from_js of a double the script engine hands back: the JSON number that arrives is numerically the same.
    f = k (integral, |k| <= 10^30, far beyond i64) or k + 1/2 (decision)."""
    k = z3.Int("k")
    I.assume(z3.And(k >= -(10**30), k <= 10**30))
    half = I.path.choose(2, "fraction") == 1
    f = z3.ToReal(k) + (z3.RealVal("1/2") if half else z3.RealVal(0))
    ctx = Opaque("jsctx")
    back = I.call_raw("<env::value::ActValue as rquickjs::FromJs>::from_js", [Ptr([ctx], 0), JsV("Float", f)], None)
    res.witnesses += 1
    if back.d != 0:
        res.violations.append(Violation(prop, "value:from_js-failed:float", "from_js failed on a double", "value:float-out", dict(decisions=list(I.path.taken)), {}, None))
        return
    got = back.f[0].f[0]
    res.obligations += 1
    if got.d != 2:
        res.violations.append(Violation(prop, "value:double-not-a-number", "a double came back as %r" % (got,), "value:float-out", dict(decisions=list(I.path.taken)), {}, None))
        return
    y = got.f[0].n
    ys = z3.ToReal(y) if (is_sym(y) and z3.is_int(y)) else (z3.RealVal(repr(y)) if not is_sym(y) else y)
    neq = z3.Not(ys == f)
    if I.check_sat(neq):
        m = I.model(neq)
        val = str(m.eval(k, model_completion=True)) if m is not None else "?"
        res.violations.append(Violation(prop, "value:double-changed-leaving-script:%s" % ("fractional" if half else "integral"),
                                        "a double (e.g. %s%s) handed back by the script engine arrives as another number (%r)" % (val, " + 0.5" if half else "", got),
                                        "value:float-out", dict(decisions=list(I.path.taken), half=half), {"k": val}, None))
    if len(res.samples) < 2:
        res.samples.append(dict(check="float-out", fractional=half, result=repr(got)[:160]))


def float_out(I, prop):
    res = explore(I, "value:float-out", lambda I, res: float_out_path(I, res, prop), max_paths=50)
    for v in res.violations:
        v.confirmed, v.replay = confirm_float(v)
    return res


def confirm_float(v):
    """Replay: a script returns the literal double; the terminal outputs must carry the same number."""
    from . import replay, scen
    try:
        k = int(v.model.get("k"))
    except (TypeError, ValueError):
        return None, None
    half = v.decisions.get("half")
    lit = ("%d.5" % k) if half else ("%d.0" % k if abs(k) < 10**15 else "%de0" % k)
    want = k + 0.5 if half else float(k)
    model = scen.wf("m", [scen.step("s1", [scen.code("c1", "return { out: %s };" % lit)])], outputs={"out": None})
    out = replay.run({"config": {"keep_processes": True}, "threads": 2, "models": [model], "steps": [{"op": "start", "mid": "m", "inputs": {}}], "known_nids": ["m", "s1", "c1"]})
    if "error" in out:
        return None, out
    evs = [e for e in out.get("events", []) if e["kind"] == "complete"]
    if not evs:
        return None, dict(events=out.get("events"))
    got = (evs[0].get("outputs") or {}).get("out")
    try:
        same = float(got) == float(want)
    except (TypeError, ValueError):
        same = False
    return (not same), dict(script_returned=lit, came_back=got)


def num_equal(I, a, b):
    """Structural equality of JSON values, numbers compared numerically (int vs integral float allowed)."""
    if a.d != b.d:
        return False
    if a.d == 2:
        x, y = a.f[0].n, b.f[0].n
        if isinstance(x, float) or isinstance(y, float):
            if is_sym(x) or is_sym(y):
                xs = z3.ToReal(x) if is_sym(x) and z3.is_int(x) else x
                ys = z3.ToReal(y) if is_sym(y) and z3.is_int(y) else y
                return xs == ys
            return float(x) == float(y)
        if is_sym(x) or is_sym(y):
            if (is_sym(x) and z3.is_real(x)) or (is_sym(y) and z3.is_real(y)):
                xs = z3.ToReal(x) if (is_sym(x) and z3.is_int(x)) else x
                ys = z3.ToReal(y) if (is_sym(y) and z3.is_int(y)) else y
                return xs == ys
            return x == y
        return x == y
    if a.d == 4:
        if len(a.f[0].a) != len(b.f[0].a):
            return False
        parts = [num_equal(I, x, y) for x, y in zip(a.f[0].a, b.f[0].a)]
    elif a.d == 5:
        if set(a.f[0].d.keys()) != set(b.f[0].d.keys()):
            return False
        parts = [num_equal(I, a.f[0].d[k].v, b.f[0].d[k].v) for k in a.f[0].d]
    else:
        return struct_eq(I, a, b)
    if any(p is False for p in parts):
        return False
    sym = [p for p in parts if p is not True]
    return z3.And(*sym) if sym else True


def roundtrip(I, prop, shape):
    res = explore(I, "value:" + shape, lambda I, res: roundtrip_path(I, res, prop, shape), max_paths=50)
    for v in res.violations:
        v.confirmed, v.replay = confirm_value(v)
    return res


def confirm_value(v):
    """Replay: a workflow that copies the value through acts.transform.code and returns it."""
    from . import replay, scen
    try:
        n = int(v.model.get("n"))
    except (TypeError, ValueError):
        return None, None
    model = scen.wf("m", [scen.step("s1", [scen.code("c1", "return { out: x };")])], inputs={"x": None}, outputs={"out": None})
    out = replay.run({"config": {"keep_processes": True}, "threads": 2, "models": [model], "steps": [{"op": "start", "mid": "m", "inputs": {"x": n}}], "known_nids": ["m", "s1", "c1"]})
    if "error" in out:
        return None, out
    evs = [e for e in out.get("events", []) if e["kind"] == "complete"]
    if not evs:
        return None, dict(events=out.get("events"))
    got = (evs[0].get("outputs") or {}).get("out")
    return (got != n), dict(sent=n, came_back=got)


TEMPLATES = [
    ("pre {{ a }} post", "pre 7 post"),
    ("{{ a }}", 7),
    ("{{ b }}", "x"),
    ("no templates here", "no templates here"),
    ("{{ a }} and {{ b }}", "7 and x"),
    ("{{ a }}{{ b }}", "7x"),
    ("v={{ a }};w={{ a }}", "v=7;w=7"),
    ("{{ c }}!", "true!"),
    ("price: {{ d }} today", "price: $100 off today"),
    ("{ not a template }", "{ not a template }"),
    ("a {{ a }} b {{ b }} c {{ c }}", "a 7 b x c true"),
]


def template_path(I, res, prop):
    """fill_params on a bounded set of template strings (expression results come from the modelled variables)."""
    from .flow import Run, Cfg
    from . import scen
    idx = I.path.choose(len(TEMPLATES), "template")
    tmpl, want = TEMPLATES[idx]
    model = scen.wf("m", [scen.step("s1", [scen.irq("a1", params={"p": tmpl, "nested": [tmpl]})])], inputs={"a": 7, "b": "x", "c": True, "d": "$100 off"})
    W = World(I, policy="fifo").boot()
    W.start(model, {})
    W.drain()
    res.witnesses += 1
    msgs = [m for m in W.messages if m["nid"] == "a1" and m["state"] == "Created"]
    if not msgs:
        res.violations.append(Violation(prop, "template:act-not-created", "the act with template params was not created", "templates", dict(decisions=list(I.path.taken)), {}, None))
        return
    p = (msgs[0]["inputs"].get("params") or {})
    for got, where in ((p.get("p"), "top"), ((p.get("nested") or [None])[0], "nested")):
        if got != want:
            kind = "several-templates" if tmpl.count("{{") > 1 else ("single-template" if "{{" in tmpl else "no-template")
            res.violations.append(Violation(prop, "template:%s:wrong-substitution" % kind, "params %r were filled as %r, expected %r (%s)" % (tmpl, got, want, where),
                                            "templates", dict(decisions=list(I.path.taken), template=tmpl, want=want), {}, None))
    if len(res.samples) < 3:
        res.samples.append(dict(check="template", template=tmpl, filled=p.get("p")))


def templates(I, prop):
    res = explore(I, "templates", lambda I, res: template_path(I, res, prop), max_paths=50)
    seen = {}
    for v in res.violations:
        if v.role not in seen:
            seen[v.role] = confirm_template(v)
        v.confirmed, v.replay = seen[v.role]
    return res


def confirm_template(v):
    from . import replay, scen
    tmpl, want = v.decisions.get("template"), v.decisions.get("want")
    if tmpl is None:
        return None, None
    model = scen.wf("m", [scen.step("s1", [scen.irq("a1", params={"p": tmpl})])], inputs={"a": 7, "b": "x", "c": True, "d": "$100 off"})
    out = replay.run({"config": {"keep_processes": True}, "threads": 2, "models": [model], "steps": [{"op": "start", "mid": "m", "inputs": {}}], "known_nids": ["m", "s1", "a1"]})
    if "error" in out:
        return None, out
    ms = [m for m in out.get("messages", []) if m["nid"] == "a1" and m["state"] == "created"]
    if not ms:
        return None, dict(messages=len(out.get("messages", [])))
    got = ((ms[0].get("inputs") or {}).get("params") or {}).get("p")
    return (got != want), dict(template=tmpl, filled=got, expected=want)
