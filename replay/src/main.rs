//! Replays a concrete scenario (JSON) on the real engine through its public API and dumps what a
//! client can observe.  Used to confirm solver counterexamples and to validate the environment model.
use acts::{ChannelOptions, EngineBuilder, Vars, Workflow};
use serde_json::{Value, json};
use std::sync::{Arc, Mutex};
use std::time::Duration;

fn vars_of(v: &Value) -> Vars {
    let mut vars = Vars::new();
    if let Value::Object(m) = v {
        for (k, x) in m {
            vars.insert(k.clone(), x.clone());
        }
    }
    vars
}

struct Obs {
    messages: Mutex<Vec<Value>>,
    events: Mutex<Vec<Value>>,
}

static TRACE: Mutex<Vec<Value>> = Mutex::new(Vec::new());

fn tasks_of(engine: &acts::Engine, pid: &str) -> Vec<Value> {
    let q = acts::ExecutorQuery::new().with_query("pid", pid).with_count(10000);
    let mut out = Vec::new();
    if let Ok(page) = engine.executor().task().list(&q) {
        for t in page.rows {
            out.push(json!({"tid": t.id, "nid": t.nid, "type": t.r#type, "state": t.state, "prev": t.prev,
                "data": serde_json::from_str::<Value>(&t.data).unwrap_or(Value::Null), "timestamp": t.timestamp,
                "start_time": t.start_time, "end_time": t.end_time}));
        }
    }
    out.sort_by_key(|t| t["timestamp"].as_i64().unwrap_or(0));
    out
}

fn stored_dump(engine: &acts::Engine, pids: &[String]) -> (Vec<Value>, Vec<Value>, Vec<Value>) {
    let mut stored_procs = Vec::new();
    let mut stored_tasks = Vec::new();
    let mut live = Vec::new();
    for p in pids {
        live.push(acts::verif::live_dump(engine, p).unwrap_or(Value::Null));
        if let Ok(r) = acts::verif::procs(engine).find(p) {
            stored_procs.push(json!({"id": r.id, "state": r.state, "env": serde_json::from_str::<Value>(&r.env).unwrap_or(Value::Null), "err": r.err,
                "start_time": r.start_time, "end_time": r.end_time}));
        }
        let q = acts::query::Query::new().push(acts::query::Cond::and().push(acts::query::Expr::eq("pid", p.clone())));
        if let Ok(page) = acts::verif::tasks(engine).query(&q) {
            for t in page.rows {
                stored_tasks.push(json!({"pid": t.pid, "tid": t.tid, "state": t.state, "prev": t.prev, "data": serde_json::from_str::<Value>(&t.data).unwrap_or(Value::Null),
                    "err": t.err, "start_time": t.start_time, "end_time": t.end_time}));
            }
        }
    }
    (live, stored_procs, stored_tasks)
}

async fn settle(engine: &acts::Engine, obs: &Arc<Obs>, pids: &[String]) {
    // quiescence: the in-flight counter of the verif hooks is 0 on three consecutive polls and nothing
    // observable changed meanwhile
    let mut last = String::new();
    let mut stable = 0;
    for _ in 0..2000 {
        tokio::time::sleep(Duration::from_millis(3)).await;
        if acts::verif::in_flight() != 0 {
            stable = 0;
            continue;
        }
        let mut sig = format!("{}:{}", obs.messages.lock().unwrap().len(), obs.events.lock().unwrap().len());
        for p in pids {
            for t in tasks_of(engine, p) {
                sig.push_str(&format!("|{}={}", t["tid"], t["state"]));
            }
        }
        if sig == last {
            stable += 1;
            if stable >= 3 {
                return;
            }
        } else {
            stable = 0;
            last = sig;
        }
    }
}

fn main() {
    let args: Vec<String> = std::env::args().collect();
    let text = std::fs::read_to_string(&args[1]).expect("scenario file");
    let sc: Value = serde_json::from_str(&text).expect("scenario json");
    let threads = sc["threads"].as_u64().unwrap_or(4) as usize;
    let rt = if threads == 0 {
        tokio::runtime::Builder::new_current_thread().enable_all().build().unwrap()
    } else {
        tokio::runtime::Builder::new_multi_thread().worker_threads(threads).enable_all().build().unwrap()
    };
    rt.block_on(run(sc));
}

async fn run(sc: Value) {
    // config through a toml file (keep_processes has no builder method)
    let dir = std::env::temp_dir().join(format!("verif-replay-{}", std::process::id()));
    std::fs::create_dir_all(&dir).unwrap();
    let cfg_path = dir.join("acts.toml");
    let mut toml = String::new();
    let mut sqlite_db: Option<String> = None;
    if let Value::Object(c) = &sc["config"] {
        for (k, v) in c {
            if k == "sqlite" {
                // the six collections of the SQLite store plugin replace the memory ones (database file in the scratch directory)
                sqlite_db = Some(dir.join("replay.db").to_string_lossy().to_string());
                continue;
            }
            if !v.is_null() {
                toml.push_str(&format!("{} = {}\n", k, v));
            }
        }
    }
    if let Some(db) = &sqlite_db {
        toml.push_str(&format!("[sqlite]\ndatabase_url = \"{}\"\n", db));
    }
    std::fs::write(&cfg_path, toml).unwrap();
    let mut builder = EngineBuilder::new().set_config_source(&cfg_path);
    if sqlite_db.is_some() {
        builder = builder.add_plugin(&acts_store_sqlite::SqliteStore);
    }
    let engine = builder.build().await.unwrap().start();
    if sqlite_db.is_none() {
        let _ = std::fs::remove_dir_all(&dir);
    }

    acts::verif::set_trace(|pid, tid, how, old, new| {
        TRACE.lock().unwrap().push(json!({"pid": pid, "tid": tid, "how": how, "old": old, "new": new}));
    });
    let obs = Arc::new(Obs { messages: Mutex::new(Vec::new()), events: Mutex::new(Vec::new()) });
    let chan = engine.channel_with_options(&ChannelOptions::default());
    {
        let o = obs.clone();
        chan.on_message(move |e| {
            o.messages.lock().unwrap().push(json!({"id": e.id, "pid": e.pid, "tid": e.tid, "nid": e.nid, "type": e.r#type,
                "state": e.state.to_string(), "key": e.key, "uses": e.uses, "inputs": e.inputs, "outputs": e.outputs,
                "retry_times": e.retry_times}));
        });
        let o = obs.clone();
        chan.on_start(move |e| {
            o.events.lock().unwrap().push(json!({"kind": "start", "pid": e.pid, "state": e.state.to_string(), "outputs": e.outputs}));
        });
        let o = obs.clone();
        chan.on_complete(move |e| {
            o.events.lock().unwrap().push(json!({"kind": "complete", "pid": e.pid, "state": e.state.to_string(), "outputs": e.outputs, "inputs": e.inputs}));
        });
        let o = obs.clone();
        chan.on_error(move |e| {
            o.events.lock().unwrap().push(json!({"kind": "error", "pid": e.pid, "state": e.state.to_string(), "outputs": e.outputs, "inputs": e.inputs}));
        });
    }
    let mut results = Vec::new();
    for m in sc["models"].as_array().unwrap_or(&vec![]) {
        let w = Workflow::from_json(&m.to_string()).expect("model");
        let r = engine.executor().model().deploy(&w);
        results.push(json!({"op": "deploy", "ok": r.is_ok(), "err": r.err().map(|e| e.to_string())}));
    }
    let mut pids: Vec<String> = Vec::new();
    let mut clock_base: i64 = 0;
    let mut snapshots: Vec<Value> = Vec::new();
    for st in sc["steps"].as_array().unwrap_or(&vec![]) {
        let op = st["op"].as_str().unwrap_or("");
        match op {
            "start" => {
                let r = engine.executor().proc().start(st["mid"].as_str().unwrap(), &vars_of(&st["inputs"]));
                match r {
                    Ok(pid) => {
                        pids.push(pid.clone());
                        results.push(json!({"op": "start", "ok": true, "pid": pid}));
                    }
                    Err(e) => results.push(json!({"op": "start", "ok": false, "err": e.to_string()})),
                }
            }
            "action" => {
                let pi = st["pid_index"].as_u64().unwrap_or(0) as usize;
                let pid = pids.get(pi).cloned().unwrap_or_default();
                let nid = st["nid"].as_str().unwrap_or("");
                let occ = st["occurrence"].as_u64().unwrap_or(0) as usize;
                let tasks = tasks_of(&engine, &pid);
                let tid = if let Some(t) = st["tid"].as_str() {
                    t.to_string()
                } else if let Some(di) = st["dyn_index"].as_u64() {
                    // the di-th task (creation order) whose node id is not a node of the deployed model
                    let known: Vec<String> = sc["known_nids"].as_array().map(|a| a.iter().filter_map(|x| x.as_str().map(|s| s.to_string())).collect()).unwrap_or_default();
                    tasks.iter().filter(|t| !known.iter().any(|k| t["nid"] == k.as_str())).nth(di as usize)
                        .map(|t| t["tid"].as_str().unwrap().to_string()).unwrap_or("missing".to_string())
                } else {
                    tasks.iter().filter(|t| t["nid"] == nid).nth(occ).map(|t| t["tid"].as_str().unwrap().to_string()).unwrap_or("missing".to_string())
                };
                let kind = st["kind"].as_str().unwrap_or("next");
                let ex = engine.executor();
                let a = ex.act();
                let o = vars_of(&st["options"]);
                if let Some(n) = st["race"].as_u64() {
                    // the same action from n client threads released by one barrier
                    let barrier = std::sync::Barrier::new(n as usize);
                    let handle = tokio::runtime::Handle::current();
                    let oks: Vec<bool> = std::thread::scope(|sc| {
                        let hs: Vec<_> = (0..n).map(|_| {
                            let (engine, pid, tid, o, barrier, handle) = (&engine, &pid, &tid, &o, &barrier, &handle);
                            sc.spawn(move || {
                                let _g = handle.enter();
                                let ex = engine.executor();
                                let a = ex.act();
                                barrier.wait();
                                let r = match kind {
                                    "next" | "complete" => a.complete(pid, tid, o),
                                    "submit" => a.submit(pid, tid, o),
                                    "back" => a.back(pid, tid, o),
                                    "cancel" => a.cancel(pid, tid, o),
                                    "abort" => a.abort(pid, tid, o),
                                    "skip" => a.skip(pid, tid, o),
                                    "error" => a.error(pid, tid, o),
                                    "remove" => a.remove(pid, tid, o),
                                    _ => panic!("unknown race action kind {kind}"),
                                };
                                r.is_ok()
                            })
                        }).collect();
                        hs.into_iter().map(|h| h.join().unwrap_or(false)).collect()
                    });
                    let n_ok = oks.iter().filter(|x| **x).count();
                    results.push(json!({"op": "race", "kind": kind, "nid": nid, "tid": tid, "threads": n, "n_ok": n_ok}));
                } else {
                let r = match kind {
                    "next" | "complete" => a.complete(&pid, &tid, &o),
                    "submit" => a.submit(&pid, &tid, &o),
                    "back" => a.back(&pid, &tid, &o),
                    "cancel" => a.cancel(&pid, &tid, &o),
                    "abort" => a.abort(&pid, &tid, &o),
                    "skip" => a.skip(&pid, &tid, &o),
                    "error" => a.error(&pid, &tid, &o),
                    "push" => a.push(&pid, &tid, &o),
                    "remove" => a.remove(&pid, &tid, &o),
                    "set_process_vars" => a.set_process_vars(&pid, &tid, &o),
                    _ => panic!("unknown action kind {kind}"),
                };
                results.push(json!({"op": "action", "kind": kind, "nid": nid, "tid": tid, "ok": r.is_ok(), "err": r.err().map(|e| e.to_string())}));
                }
            }
            "race_pair" => {
                // two client threads released by one barrier, each completing ONE of two different open acts of the process
                let pi = st["pid_index"].as_u64().unwrap_or(0) as usize;
                let pid = pids.get(pi).cloned().unwrap_or_default();
                let tasks = tasks_of(&engine, &pid);
                let nids: Vec<String> = st["nids"].as_array().map(|a| a.iter().filter_map(|x| x.as_str().map(|s| s.to_string())).collect()).unwrap_or_default();
                let tids: Vec<String> = nids.iter().map(|n| tasks.iter().filter(|t| t["nid"] == n.as_str()).next()
                    .map(|t| t["tid"].as_str().unwrap().to_string()).unwrap_or("missing".to_string())).collect();
                let opts: Vec<acts::Vars> = (0..nids.len()).map(|i| vars_of(&st["options"][i])).collect();
                let barrier = std::sync::Barrier::new(nids.len());
                let handle = tokio::runtime::Handle::current();
                let oks: Vec<bool> = std::thread::scope(|sc| {
                    let hs: Vec<_> = (0..nids.len()).map(|i| {
                        let (engine, pid, tid, o, barrier, handle) = (&engine, &pid, &tids[i], &opts[i], &barrier, &handle);
                        sc.spawn(move || {
                            let _g = handle.enter();
                            let ex = engine.executor();
                            let a = ex.act();
                            barrier.wait();
                            a.complete(pid, tid, o).is_ok()
                        })
                    }).collect();
                    hs.into_iter().map(|h| h.join().unwrap_or(false)).collect()
                });
                results.push(json!({"op": "race_pair", "nids": nids, "oks": oks}));
            }
            "tick_race" => {
                // one thread completes the act, another one runs the tick handler, released by one barrier
                let pi = st["pid_index"].as_u64().unwrap_or(0) as usize;
                let pid = pids.get(pi).cloned().unwrap_or_default();
                let tasks = tasks_of(&engine, &pid);
                let nid = st["nid"].as_str().unwrap_or("");
                let tid = tasks.iter().filter(|t| t["nid"] == nid).next().map(|t| t["tid"].as_str().unwrap().to_string()).unwrap_or("missing".to_string());
                let o = vars_of(&st["options"]);
                let ticks = st["ticks"].as_u64().unwrap_or(1);
                let spin = st["spin"].as_u64().unwrap_or(0);
                let barrier = std::sync::Barrier::new(2);
                let handle = tokio::runtime::Handle::current();
                let okc = std::thread::scope(|sc| {
                    let (engine_r, pid_r, tid_r, o_r, barrier_r, handle_r) = (&engine, &pid, &tid, &o, &barrier, &handle);
                    let h1 = sc.spawn(move || {
                        let _g = handle_r.enter();
                        let ex = engine_r.executor();
                        let a = ex.act();
                        barrier_r.wait();
                        // let a few ticks get under way first
                        for _ in 0..spin { std::hint::spin_loop(); }
                        a.complete(pid_r, tid_r, o_r).is_ok()
                    });
                    let h2 = sc.spawn(move || {
                        let _g = handle_r.enter();
                        barrier_r.wait();
                        // a burst of ticks: the handler runs on a dispatch task, so a single tick would almost always be handled after the client call returned
                        for _ in 0..ticks {
                            acts::verif::tick(engine_r);
                            std::thread::yield_now();
                        }
                        true
                    });
                    let r = h1.join().unwrap_or(false);
                    let _ = h2.join();
                    r
                });
                results.push(json!({"op": "tick_race", "nid": nid, "ok": okc}));
            }
            "burst" => {
                // the client completes several open acts back to back, without waiting for the engine to settle in between
                let pi = st["pid_index"].as_u64().unwrap_or(0) as usize;
                let pid = pids.get(pi).cloned().unwrap_or_default();
                let tasks = tasks_of(&engine, &pid);
                let nids: Vec<String> = st["nids"].as_array().map(|a| a.iter().filter_map(|x| x.as_str().map(|s| s.to_string())).collect()).unwrap_or_default();
                let tids: Vec<String> = nids.iter().map(|n| tasks.iter().filter(|t| t["nid"] == n.as_str()).next()
                    .map(|t| t["tid"].as_str().unwrap().to_string()).unwrap_or("missing".to_string())).collect();
                let mut oks = Vec::new();
                for (i, tid) in tids.iter().enumerate() {
                    oks.push(engine.executor().act().complete(&pid, tid, &vars_of(&st["options"][i])).is_ok());
                }
                results.push(json!({"op": "burst", "nids": nids, "oks": oks}));
            }
            "answer_all" => {
                let pi = st["pid_index"].as_u64().unwrap_or(0) as usize;
                let pid = pids.get(pi).cloned().unwrap_or_default();
                let max = st["max"].as_u64().unwrap_or(20);
                for _ in 0..max {
                    settle(&engine, &obs, &pids).await;
                    let done = obs.events.lock().unwrap().iter().any(|e| e["pid"] == pid.as_str() && e["kind"] != "start");
                    if done {
                        break;
                    }
                    let tasks = tasks_of(&engine, &pid);
                    let open = tasks.iter().find(|t| t["type"] == "act" && t["state"] == "interrupted");
                    match open {
                        Some(t) => {
                            let tid = t["tid"].as_str().unwrap().to_string();
                            let r = engine.executor().act().complete(&pid, &tid, &vars_of(&st["options"]));
                            results.push(json!({"op": "answer", "nid": t["nid"], "ok": r.is_ok(), "err": r.err().map(|e| e.to_string())}));
                        }
                        None => break,
                    }
                }
            }
            "store_query" => {
                // rows into the models collection of the engine's store, then one query through the public query API
                use acts::query::{Cond, Expr, Query};
                let coll = acts::verif::models(&engine);
                for r in st["rows"].as_array().unwrap_or(&vec![]) {
                    let m: acts::data::Model = serde_json::from_value(r.clone()).expect("model row");
                    let _ = coll.create(&m);
                }
                let mut q = Query::new();
                for c in st["query"]["conds"].as_array().unwrap_or(&vec![]) {
                    let mut cond = if c["type"] == "or" { Cond::or() } else { Cond::and() };
                    for e in c["exprs"].as_array().unwrap_or(&vec![]) {
                        let k = e["key"].as_str().unwrap();
                        let v = e["value"].clone();
                        let ex = match e["op"].as_str().unwrap() {
                            "EQ" => Expr::eq(k, v),
                            "NE" => Expr::ne(k, v),
                            "LT" => Expr::lt(k, v),
                            "LE" => Expr::le(k, v),
                            "GT" => Expr::gt(k, v),
                            _ => Expr::ge(k, v),
                        };
                        cond = cond.push(ex);
                    }
                    q = q.push(cond);
                }
                for o in st["query"]["order"].as_array().unwrap_or(&vec![]) {
                    q = q.push_order(o[0].as_str().unwrap(), o[1].as_bool().unwrap_or(false));
                }
                if let Some(off) = st["query"]["offset"].as_u64() {
                    q = q.set_offset(off as usize);
                }
                if let Some(l) = st["query"]["limit"].as_u64() {
                    q = q.set_limit(l as usize);
                }
                match coll.query(&q) {
                    Ok(page) => results.push(json!({"op": "store_query", "ok": true, "ids": page.rows.iter().map(|m| m.id.clone()).collect::<Vec<_>>(),
                        "count": page.count, "page_num": page.page_num, "page_count": page.page_count, "page_size": page.page_size})),
                    Err(e) => results.push(json!({"op": "store_query", "ok": false, "err": e.to_string()})),
                }
            }
            "store_roundtrip" => {
                let ty = st["type"].as_str().unwrap_or("");
                let rec = st["record"].clone();
                let id = rec["id"].as_str().unwrap_or("").to_string();
                macro_rules! rt {
                    ($coll:expr, $t:ty) => {{
                        let c = $coll;
                        let v: $t = serde_json::from_value(rec.clone()).expect("record");
                        let created = c.create(&v).is_ok();
                        let found = c.find(&id).ok().map(|x| serde_json::to_value(&x).unwrap());
                        let upd: Option<$t> = st.get("update").and_then(|u| serde_json::from_value(u.clone()).ok());
                        let mut found_upd = None;
                        if let Some(u) = upd {
                            let _ = c.update(&u);
                            found_upd = c.find(&id).ok().map(|x| serde_json::to_value(&x).unwrap());
                        }
                        let _ = c.delete(&id);
                        let after_delete = c.find(&id).is_ok();
                        // an update of a record that is not there does not create it
                        let _ = c.update(&v);
                        let after_late_update = c.find(&id).is_ok() || c.exists(&id).unwrap_or(false);
                        results.push(json!({"op": "store_roundtrip", "created": created, "found": found, "found_after_update": found_upd, "present_after_delete": after_delete,
                            "present_after_late_update": after_late_update}));
                    }};
                }
                match ty {
                    "Model" => rt!(acts::verif::models(&engine), acts::data::Model),
                    "Proc" => rt!(acts::verif::procs(&engine), acts::data::Proc),
                    "Task" => rt!(acts::verif::tasks(&engine), acts::data::Task),
                    "Message" => rt!(acts::verif::messages(&engine), acts::data::Message),
                    "Package" => rt!(acts::verif::packages(&engine), acts::data::Package),
                    "Event" => rt!(acts::verif::events(&engine), acts::data::Event),
                    _ => {}
                }
            }
            "tick" => {
                if let Some(off) = st["clock_offset"].as_i64() {
                    acts::verif::set_clock_offset(clock_base + off);
                }
                acts::verif::tick(&engine);
                results.push(json!({"op": "tick"}));
            }
            "clock" => {
                if let Some(phase) = st["phase"].as_i64() {
                    // shift the engine clock so that its sub-second phase is `phase` now (the counterexample may depend on it)
                    let now = std::time::SystemTime::now().duration_since(std::time::UNIX_EPOCH).unwrap().as_millis() as i64;
                    clock_base = (phase - now % 1000 + 1000) % 1000;
                    acts::verif::set_clock_offset(clock_base);
                } else {
                    acts::verif::set_clock_offset(clock_base + st["offset"].as_i64().unwrap_or(0));
                }
            }
            "uncache" => {
                let pi = st["pid_index"].as_u64().unwrap_or(0) as usize;
                if let Some(pid) = pids.get(pi) {
                    acts::verif::uncache(&engine, pid);
                }
                results.push(json!({"op": "uncache"}));
            }
            "ack" => {
                let idx = st["message_index"].as_u64().unwrap_or(0) as usize;
                let id = obs.messages.lock().unwrap().get(idx).map(|m| m["id"].as_str().unwrap_or("").to_string());
                if let Some(id) = id {
                    let r = engine.executor().msg().ack(&id);
                    results.push(json!({"op": "ack", "ok": r.is_ok()}));
                }
            }
            "redo" => {
                let r = engine.executor().msg().redo();
                results.push(json!({"op": "redo", "ok": r.is_ok()}));
            }
            _ => {}
        }
        settle(&engine, &obs, &pids).await;
        let mut ps = Vec::new();
        for p in &pids {
            // the store row, not executor.proc().get(): that call reloads an evicted process into the cache (the observation would change the run)
            let state = acts::verif::procs(&engine).find(p).map(|r| r.state).unwrap_or("missing".to_string());
            ps.push(json!({"pid": p, "state": state, "tasks": tasks_of(&engine, p)}));
        }
        let (lv, sp, stt) = stored_dump(&engine, &pids);
        snapshots.push(json!({"procs": ps, "nmsg": obs.messages.lock().unwrap().len(), "nevents": obs.events.lock().unwrap().len(),
            "ntrace": TRACE.lock().unwrap().len(), "live": lv, "stored_procs": sp, "stored_tasks": stt}));
    }
    let mut procs = Vec::new();
    for p in &pids {
        let state = acts::verif::procs(&engine).find(p).map(|r| r.state).unwrap_or("missing".to_string());
        procs.push(json!({"pid": p, "state": state, "tasks": tasks_of(&engine, p)}));
    }
    let mut live = Vec::new();
    for p in &pids {
        live.push(acts::verif::live_dump(&engine, p).unwrap_or(Value::Null));
    }
    let mut stored_procs = Vec::new();
    let mut stored_tasks = Vec::new();
    for p in &pids {
        if let Ok(r) = acts::verif::procs(&engine).find(p) {
            stored_procs.push(json!({"id": r.id, "state": r.state, "env": serde_json::from_str::<Value>(&r.env).unwrap_or(Value::Null), "err": r.err,
                "start_time": r.start_time, "end_time": r.end_time}));
        }
        let q = acts::query::Query::new().push(acts::query::Cond::and().push(acts::query::Expr::eq("pid", p.clone())));
        if let Ok(page) = acts::verif::tasks(&engine).query(&q) {
            for t in page.rows {
                stored_tasks.push(json!({"pid": t.pid, "tid": t.tid, "state": t.state, "prev": t.prev, "data": serde_json::from_str::<Value>(&t.data).unwrap_or(Value::Null),
                    "err": t.err, "start_time": t.start_time, "end_time": t.end_time}));
            }
        }
    }
    let mut stored_msgs = Vec::new();
    if let Ok(page) = acts::verif::messages(&engine).query(&acts::query::Query::new()) {
        for m in page.rows {
            stored_msgs.push(json!({"id": m.id, "pid": m.pid, "tid": m.tid, "status": m.status.to_string(), "retry_times": m.retry_times,
                "create_time": m.create_time, "update_time": m.update_time}));
        }
    }
    let out = json!({"procs": procs, "messages": *obs.messages.lock().unwrap(), "events": *obs.events.lock().unwrap(), "results": results,
        "trace": *TRACE.lock().unwrap(), "snapshots": snapshots, "live": live, "stored_procs": stored_procs, "stored_tasks": stored_tasks, "stored_messages": stored_msgs});
    println!("{}", out);
    if sqlite_db.is_some() {
        let _ = std::fs::remove_dir_all(&dir);
    }
    std::process::exit(0);
}
