#!/bin/bash
# Build everything the checks need from files on disk (offline).  The checks themselves re-dump the
# MIR and rebuild the replay binary whenever /repo's tree changed; this only warms the caches.
set -e
cd "$(dirname "$0")"
export CARGO_NET_OFFLINE=true
mkdir -p .cache
python3 tools/mirdump.py acts >/dev/null
(cd replay && CARGO_TARGET_DIR=/verif/.cache/target-replay cargo build --offline 2>&1 | tail -2)
python3-vt -c "import z3; print('z3', z3.get_version_string())"
