#!/usr/bin/env python3
"""Add the confirmed violation roles of the latest run of a property to known_findings.json (status known).
Used by hand after triage; checks never write to that file."""
import glob, json, sys
prop = sys.argv[1]; tier = sys.argv[2] if len(sys.argv) > 2 else "quick"
kf = json.load(open('/verif/known_findings.json'))
have = {(e['property'], e['role']) for e in kf}
for f in sorted(glob.glob('/verif/replays/%s-%s-[0-9]*.json' % (prop, tier))):
    d = json.load(open(f))
    inst = d['instances']
    conf = [v for v in inst if v.get('confirmed')]
    if not conf:
        print('SKIP (unconfirmed)', d['role']); continue
    if (prop, d['role']) in have:
        continue
    v = conf[0]
    kf.append(dict(property=prop, role=d['role'], status='known', what=v['desc'][:200],
                   witness=dict(scenario=v['scenario'], inputs=v['model'], script=[{k: e.get(k) for k in ('action','target','answer','target_state','accepted')} for e in (v['decisions'] or {}).get('script', [])][:8],
                                replay_threads=(v.get('replay') or {}).get('threads'))))
    print('ADD', d['role'])
json.dump(kf, open('/verif/known_findings.json','w'), indent=1)
