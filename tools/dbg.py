#!/usr/bin/env python3-vt
"""debug helper: run one job serially.  usage: dbg.py <module> <function> '<python literal args>'"""
import sys, ast, time, os
sys.path.insert(0, os.path.dirname(os.path.dirname(os.path.abspath(__file__))))
from mirsym import harness
from props import replay as _rp
_e = _rp.build()
if _e: print('replay build error', _e[-500:])
mirs = harness.mir_paths(("acts",))
harness._worker_init(mirs, None)
args = eval(sys.argv[3])
t = time.time()
res = harness._worker_run((sys.argv[1], sys.argv[2], args))
print("fault:", res.fault)
print("paths", res.paths, "witnesses", res.witnesses, "inconclusive", res.inconclusive, "wall %.1f" % (time.time() - t))
seen = set()
for v in res.violations:
    if v.role in seen:
        continue
    seen.add(v.role)
    print("VIOL", v.role, "|", v.desc[:300], "| confirmed:", v.confirmed, str(v.replay)[:300])
for s in res.samples[:3]:
    print("sample", str(s)[:400])
