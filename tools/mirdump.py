#!/usr/bin/env python3
"""Dump the MIR of /repo's current working tree (acts and acts-store-sqlite), cached by content hash.

usage: mirdump.py [acts|sqlite]...   -> prints the path(s) of the dump(s)
"""
import fcntl
import hashlib
import os
import subprocess
import sys
import time

REPO = os.environ.get("VERIF_REPO", "/repo")
CACHE = os.environ.get("VERIF_CACHE", "/verif/.cache")
CRATES = {
    "acts": ("acts", ["acts/src", "acts/Cargo.toml"], "acts/src/lib.rs"),
    "sqlite": ("acts-store-sqlite", ["store/sqlite/src", "store/sqlite/Cargo.toml", "acts/src", "acts/Cargo.toml"], "store/sqlite/src/lib.rs"),
}


def tree_hash(paths):
    h = hashlib.sha256()
    files = []
    for p in paths + ["Cargo.toml", "Cargo.lock"]:
        full = os.path.join(REPO, p)
        if os.path.isdir(full):
            for dp, dn, fn in os.walk(full):
                dn.sort()
                for f in sorted(fn):
                    if f.endswith((".rs", ".toml", ".sql", ".json", ".yml")):
                        files.append(os.path.join(dp, f))
        elif os.path.exists(full):
            files.append(full)
    for f in files:
        h.update(os.path.relpath(f, REPO).encode())
        with open(f, "rb") as fh:
            h.update(fh.read())
    return h.hexdigest()[:20]


def dump(which):
    pkg, paths, touch = CRATES[which]
    os.makedirs(os.path.join(CACHE, "mir"), exist_ok=True)
    hsh = tree_hash(paths)
    out = os.path.join(CACHE, "mir", "%s-%s.mir" % (which, hsh))
    if os.path.exists(out) and os.path.getsize(out) > 1000:
        return out, 0.0, True
    lock = open(os.path.join(CACHE, "mir", ".lock-" + which), "w")
    fcntl.flock(lock, fcntl.LOCK_EX)
    try:
        if os.path.exists(out) and os.path.getsize(out) > 1000:
            return out, 0.0, True
        t = time.time()
        env = dict(os.environ)
        env["CARGO_TARGET_DIR"] = os.path.join(CACHE, "target-mir")
        env["CARGO_NET_OFFLINE"] = "true"
        # rustc prints nothing when the crate is considered fresh: bump the mtime of the crate root
        os.utime(os.path.join(REPO, touch), None)
        cmd = ["cargo", "+nightly", "rustc", "--offline", "-p", pkg, "--lib", "--", "-Zunpretty=mir",
               "-Ztrim-diagnostic-paths=no", "-C", "debug-assertions=off", "-C", "overflow-checks=on"]
        tmp = out + ".tmp.%d" % os.getpid()
        with open(tmp, "wb") as fh:
            r = subprocess.run(cmd, cwd=REPO, env=env, stdout=fh, stderr=subprocess.PIPE)
        if r.returncode != 0 or os.path.getsize(tmp) < 1000:
            sys.stderr.write(r.stderr.decode("utf-8", "replace")[-4000:])
            os.unlink(tmp)
            raise SystemExit("mirdump: rustc failed for %s (the tree does not compile?)" % pkg)
        os.rename(tmp, out)
        # keep the cache small: remove older dumps of the same crate
        for f in os.listdir(os.path.join(CACHE, "mir")):
            if f.startswith(which + "-") and f.endswith(".mir") and os.path.join(CACHE, "mir", f) != out:
                try:
                    os.unlink(os.path.join(CACHE, "mir", f))
                except OSError:
                    pass
        return out, time.time() - t, False
    finally:
        fcntl.flock(lock, fcntl.LOCK_UN)


if __name__ == "__main__":
    for w in sys.argv[1:] or ["acts"]:
        p, t, cached = dump(w)
        print(p)
