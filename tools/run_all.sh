#!/bin/bash
# run every registered check once (quick tier by default) and print one line each
cd /verif
tier=${1:-quick}
for c in $(python3 -c "import json; print(' '.join(x['property_id'] for x in json.load(open('MANIFEST.json'))['checks']))"); do
  s=$(date +%s)
  ./check $c --tier $tier > /tmp/runall-$c.log 2>&1; rc=$?
  echo "$c rc=$rc $(( $(date +%s) - s ))s $(grep -E 'tier=' /tmp/runall-$c.log | tail -1 | cut -c1-160)"
done
