#!/usr/bin/env python3
"""Run seeded changes against the checks WITHOUT touching /repo: every seed gets a scratch worktree of /repo's HEAD with
the patch applied, its own cache (MIR dump, replay build) and output directory; the result goes to seeded/<id>/result.json.

usage: seed_matrix.py [--lanes N] [--tier quick] [seed-dir-name[:CHECK,CHECK] ...]      (default: every seed, checks from its name / meta.json)
"""
import json, os, subprocess, sys, shutil, time, re
from concurrent.futures import ThreadPoolExecutor

VERIF = os.path.dirname(os.path.dirname(os.path.abspath(__file__)))
SEEDED = os.path.join(VERIF, "seeded")
EXTRA = {"C02-next-guard-is-success": ["C02", "C05"], "C05-next-guard-is-success": ["C05"], "C08-skip-sibling-guard": ["C08", "C02"], "C20-catch-prev-per-step": ["C20", "C06"]}


def sh(cmd, **kw):
    return subprocess.run(cmd, shell=True, stdout=subprocess.PIPE, stderr=subprocess.STDOUT, **kw)


def one(args):
    lane, seed, checks, tier, jobs = args
    d = os.path.join(SEEDED, seed)
    wt = "/tmp/seedwt-%d-%d" % (os.getpid(), lane)
    cache = "/tmp/seedcache-%d-%d" % (os.getpid(), lane)
    out = "/tmp/seedout-%d-%d" % (os.getpid(), lane)
    sh("git -C /repo worktree remove --force %s; rm -rf %s" % (wt, wt))
    r = sh("git -C /repo worktree add --detach %s HEAD" % wt)
    if r.returncode != 0:
        return seed, dict(error="worktree: " + r.stdout.decode()[-300:])
    res = dict(seed=seed, repo_head=sh("git -C /repo rev-parse --short HEAD").stdout.decode().strip(), date=time.strftime("%Y-%m-%dT%H:%M:%SZ", time.gmtime()), tier=tier, runs=[])
    try:
        r = sh("git -C %s apply %s" % (wt, os.path.join(d, "patch.diff")))
        if r.returncode != 0:
            res["error"] = "patch does not apply: " + r.stdout.decode()[-300:]
            return seed, res
        os.makedirs(out, exist_ok=True)
        env = dict(os.environ, VERIF_REPO=wt, VERIF_CACHE=cache, VERIF_OUT=out, VERIF_JOBS=str(jobs))
        for c in checks:
            t = time.time()
            r = sh("cd %s && timeout 3600 ./check %s --tier %s" % (VERIF, c, tier), env=env)
            txt = r.stdout.decode("utf-8", "replace")
            open("/tmp/seedlog-%s-%s.log" % (seed, c), "w").write(txt)
            lines = [l[:300] for l in txt.split("\n") if re.match(r"^(VIOLATION|KNOWN-FINDING|MODEL-DIVERGENCE|MACHINERY|UNCONFIRMED|INCONCLUSIVE)", l)]
            res["runs"].append(dict(check=c, cmd="./check %s --tier %s" % (c, tier), exit=r.returncode, seconds=round(time.time() - t, 1), detected=(r.returncode == 1 and any(l.startswith("VIOLATION property=%s" % c) for l in lines)),
                                    lines=lines[:12]))
    finally:
        sh("git -C /repo worktree remove --force %s; rm -rf %s %s" % (wt, wt, out))
    with open(os.path.join(d, "result.json"), "w") as f:
        json.dump(res, f, indent=1)
    return seed, res


def main():
    a = sys.argv[1:]
    lanes, tier = 3, "quick"
    while a and a[0].startswith("--"):
        if a[0] == "--lanes":
            lanes = int(a[1]); a = a[2:]
        elif a[0] == "--tier":
            tier = a[1]; a = a[2:]
    seeds = a or sorted(x for x in os.listdir(SEEDED) if os.path.exists(os.path.join(SEEDED, x, "patch.diff")))
    work = []
    for s in seeds:
        if ":" in s:
            s, cs = s.split(":")
            checks = cs.split(",")
        else:
            checks = EXTRA.get(s) or [s.split("-")[0]]
            mp = os.path.join(SEEDED, s, "meta.json")
            if os.path.exists(mp):
                try:
                    checks = json.load(open(mp)).get("checks") or checks
                except Exception:
                    pass
        work.append((s, checks))
    jobs = max(4, 16 // lanes)
    import queue
    lane_q = queue.Queue()
    for i in range(lanes):
        lane_q.put(i)

    def wrap(w):
        lane = lane_q.get()
        try:
            return one((lane, w[0], w[1], tier, jobs))
        finally:
            lane_q.put(lane)

    bad = 0
    with ThreadPoolExecutor(lanes) as ex:
        for seed, res in ex.map(wrap, work):
            if "error" in res:
                print("%-45s ERROR %s" % (seed, res["error"]))
                bad += 1
                continue
            neutral = seed.startswith("neutral-")
            try:
                # a seed whose change no longer breaks the property since a later fix: commit in /repo (recorded in its meta.json) is expected to be silent
                neutral = neutral or bool(json.load(open(os.path.join(SEEDED, seed, "meta.json"))).get("superseded_by"))
            except Exception:
                pass
            for r in res["runs"]:
                if neutral:
                    # behaviour-preserving change: the check must stay silent (exit 0); exit 2 = machinery could not cope, exit 1 = false alarm
                    verdict = "QUIET" if r["exit"] == 0 else ("FALSE-ALARM" if r["exit"] == 1 else "MACHINERY-FAULT")
                    bad += 0 if r["exit"] == 0 else 1
                else:
                    verdict = "DETECTED" if r["detected"] else "missed"
                    bad += 0 if r["detected"] else 1
                print("%-45s %s exit=%d %5.0fs %s" % (seed, r["check"], r["exit"], r["seconds"], verdict))
    for i in range(lanes):
        shutil.rmtree("/tmp/seedcache-%d-%d" % (os.getpid(), i), ignore_errors=True)
    sh("git -C /repo worktree prune")
    return 1 if bad else 0


if __name__ == "__main__":
    sys.exit(main())
