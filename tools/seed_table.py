#!/usr/bin/env python3
"""Merge seeded/*/result.json into meta.json ("what was run") and print the markdown table for DESIGN.md."""
import json, os, sys
SEEDED = os.path.join(os.path.dirname(os.path.dirname(os.path.abspath(__file__))), "seeded")
rows = []
for d in sorted(os.listdir(SEEDED)):
    mp = os.path.join(SEEDED, d, "meta.json")
    rp = os.path.join(SEEDED, d, "result.json")
    if not os.path.exists(mp):
        continue
    try:
        meta = json.load(open(mp))
    except Exception as e:
        print("bad meta", d, e, file=sys.stderr)
        continue
    res = json.load(open(rp)) if os.path.exists(rp) else None
    if res:
        meta["checks_run"] = dict(how="tools/seed_matrix.py: scratch worktree of /repo HEAD %s with patch.diff applied, VERIF_REPO pointing at it, then the registered quick command" % res.get("repo_head"),
                                  date=res.get("date"), runs=[dict(cmd=r["cmd"], exit=r["exit"], detected=r["detected"], seconds=r["seconds"], lines=r["lines"][:3]) for r in res.get("runs", [])])
        json.dump(meta, open(mp, "w"), indent=1)
    needs = str(meta.get("needs_to_manifest", ""))
    needs = needs.replace("\n", " ").replace("|", "/")
    if len(needs) > 150:
        needs = needs[:147] + "..."
    quiet_expected = d.startswith("neutral-") or bool(meta.get("superseded_by"))
    primary = d.split("-")[0]

    def cell(r):
        if quiet_expected:
            return "%s %s" % (r["check"], "quiet (as it must be)" if r["exit"] == 0 else "ALARM exit %s" % r["exit"])
        if r["detected"]:
            return r["check"]
        return "%s (%s, exit %s)" % (r["check"], "missed" if r["check"] == primary else "silent: not this check's property", r["exit"])
    caught = ", ".join(cell(r) for r in (res or {}).get("runs", [])) or "not run"
    if meta.get("superseded_by"):
        caught += " — superseded: " + str(meta["superseded_by"])
    rows.append("| %s | %s | %s |" % (d, needs, caught))
table = "| seed (`/verif/seeded/…`) | needs | quick check that reports it |\n|---|---|---|\n" + "\n".join(rows) + "\n"
print(table)
if "--update-design" in sys.argv:
    dp = os.path.join(os.path.dirname(SEEDED), "DESIGN.md")
    ds = open(dp).read()
    a, b = ds.index("<!-- SEED-TABLE-BEGIN -->"), ds.index("<!-- SEED-TABLE-END -->")
    open(dp, "w").write(ds[:a] + "<!-- SEED-TABLE-BEGIN -->\n" + table + ds[b:])
