#!/bin/bash
# usage: try_seed.sh <seed-dir> <check id>...   applies the seeded patch to /repo, runs the checks, reverts
set -u
d=$1; shift
cd /repo && git apply "$d/patch.diff" || { echo "patch does not apply"; exit 3; }
for c in "$@"; do
  (cd /verif && timeout 3000 ./check $c > /tmp/seedrun-$(basename $d)-$c.log 2>&1; echo "$c exit=$?"; grep -E "^VIOLATION|^KNOWN|MODEL-DIV|MACHINERY|tier=" /tmp/seedrun-$(basename $d)-$c.log | cut -c1-260 | head -12)
done
cd /repo && git checkout -- . && git status --short | head -3
