#!/bin/bash
# usage: with_seed.sh <seed-dir-name> <command...>   runs the command with VERIF_REPO pointing at a scratch worktree that has the seed applied
set -u
seed=$1; shift
wt=/tmp/dbgwt-$$
git -C /repo worktree add --detach $wt HEAD >/dev/null 2>&1
git -C $wt apply /verif/seeded/$seed/patch.diff || { echo "patch does not apply"; git -C /repo worktree remove --force $wt; exit 3; }
VERIF_REPO=$wt VERIF_CACHE=/tmp/dbgcache VERIF_OUT=/tmp/dbgout "$@"
rc=$?
git -C /repo worktree remove --force $wt; git -C /repo worktree prune
exit $rc
